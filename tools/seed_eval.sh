#!/bin/bash
# tools/seed_eval.sh <ID> [props]: confirm a seeded change written by a sub-agent in /tmp/seed-<ID> and run the checks against it
ID=$1; PROPS=${2:-$ID}; W=/tmp/seed-$ID; S=$W/SEED
export RUST_BACKTRACE=0 CARGO_NET_OFFLINE=true
echo "== patch"; cat $S/patch.diff | head -60
echo "== build + tests in the worktree (with the change)"
(cd $W && cargo build --offline 2>&1 | tail -1 && for i in 1 2; do cargo test --workspace --no-fail-fast --offline 2>&1 | grep -E "^test result|FAILED" | tr '\n' ';'; echo; done)
echo "== demo with the change / without (current /repo build)"
if [ -f $S/demo.ms ]; then
  D=$(mktemp -d /dev/shm/seeddemo.XXXX); cp -r $S/* $D/; cd $D
  $W/target/debug/mscript run demo.ms -q > out_changed.txt 2> err_changed.txt; echo "changed exit=$?"
  /repo/target/debug/mscript run demo.ms -q > out_orig.txt 2> err_orig.txt; echo "orig exit=$?"
  [ -f expected.txt ] && { diff -q out_orig.txt expected.txt >/dev/null && echo "orig == expected" || echo "orig != expected"; diff -q out_changed.txt expected.txt >/dev/null && echo "changed == expected (!!)" || echo "changed != expected"; }
  diff out_orig.txt out_changed.txt | head -8
  tail -3 err_changed.txt | cut -c1-200
  cd /; rm -rf $D
fi
echo "== checks"
cd /verif && python3 tools/mut.py --patch $S/patch.diff --props $PROPS
