#!/usr/bin/env python3
"""tools/mk_replay.py <PROP> <out.json> <source.ms> <expected-stdout-file> <exit classes comma> [signature] — hand-written regression scenario"""
import sys, json, os
sys.path.insert(0, os.path.dirname(os.path.dirname(os.path.abspath(__file__))))
from msv import scenario
pid, out, src, exp, classes = sys.argv[1:6]
sig = sys.argv[6] if len(sys.argv) > 6 else "hand-written"
sc = scenario.simple(open(src).read(), asserts=[{"kind": "stdout_eq", "step": "run", "value": open(exp).read()},
                                               {"kind": "exit", "step": "run", "in": classes.split(",")}])
json.dump({"property": pid, "signature": sig, "message": "hand-written regression case", "scenario": sc}, open(out, "w"), indent=1)
res, fails, _ = scenario.execute(sc)
print("fails now:" if fails else "passes now", fails)
