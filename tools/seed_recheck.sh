#!/bin/bash
# tools/seed_recheck.sh [IDs...]: re-apply every saved seeded change to a scratch copy of the CURRENT /repo and run its property's quick check
cd /verif
ids=${@:-$(ls seeded | grep '^C')}
for id in $ids; do
  prop=${id%%-*}
  python3 tools/mut.py --patch seeded/$id/patch.diff --props $prop 2>&1 | grep -E "CAUGHT|MISSED|FAILED|rej|error" | sed "s/^patch.diff */$id /" | cut -c1-260
done
