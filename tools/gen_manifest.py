#!/usr/bin/env python3
"""Regenerates /verif/MANIFEST.json from the table below (run after adding a property module)."""
import json, os, subprocess
V = os.path.dirname(os.path.dirname(os.path.abspath(__file__)))
ids = [json.loads(l)["id"] for l in open(os.path.join(V, "properties.jsonl"))]

CHECKS = {
 "C02": dict(cat="exploration", design="§4 C02",
   technique="exhaustive typing matrices (operator x operand types, position x declared x supplied type, built-in method table, rule catalogue) + Hypothesis programs, with a dynamic-failure classifier and a typeof-vs-run-time-kind oracle",
   text="Every (binary operator incl. op-assign, left type, right type) over 14 operand types, unary operators, indexing/calling/condition/loop-bound use of each type, the counter of a from loop for every (start kind x step kind x to/through) in every iteration, every (typed position x declared type x supplied type) over 8 positions x 8 declared x 14 supplied types, every in-domain built-in call of C14's catalogue and ~40 boundary cases of individual typing rules are compiled; each ACCEPTED program is run and must not stop with a failure outside the language's defined dynamic failures, and for every probe the run-time kind (typed-print hook) must equal the kind of the `typeof` text. Programs of all generators are added as a random tail. The matrices are complete for the listed types; program space is sampled.",
   note="Failures are classified from stderr text (table in msv/props/c02.py); a nil operand reaching an operator counts as use of nil. Soundness of programs the matrices do not contain is only sampled."),
 "C03": dict(cat="fault_enumeration", design="§4 C03",
   technique="property-based fault enumeration: Hypothesis-generated well-typed programs with recorded typed sites x a fixed catalogue of type-breaking edits, rejection/position/no-execution oracle",
   text="Base programs are assembled from typed snippets in nine syntactic contexts (module, function, closure, method, loop body, else-if arm, else arm, through a type alias, imported module); the control must compile and run; then every applicable fault of the catalogue (value of another kind family, a present OPTIONAL of the expected type, near-miss function / list / map / class types, fixed-shape list literals with a wrong, extra or missing element, a return replaced by a print in functions and methods whose returns sit in if / else-if / else arms, one argument more/fewer, wrong argument family, bare return, value in a void function, undeclared name, unknown member, call of a non-function, index of a non-indexable, non-index index, unsupported operand kinds incl. byte partners) is applied at every recorded site, one mutant per (site, fault): ~90 mutants per program, 320 programs quick / 5 000 thorough. Each mutant must exit with status 1 as a compilation failure, print a `--> file:line:col` diagnostic naming the right source file and the mutated line, and print none of the program's output. Complete over (site x fault) for each generated program; programs are sampled.",
   note="Documented coercions (numeric promotion, T -> T?, str + any, str/list * int, operators applied to optionals) are excluded from the catalogue. The line oracle relies on single-line snippets; for a missing return any line of the enclosing function is accepted."),
 "C19": dict(cat="exploration", design="§4 C19", engine="E-cli + E-ffi",
   technique="property-based testing: enumerated + Hypothesis-generated argument vectors through hand-encoded binary bytecode and a probe dynamic library (echo oracle)",
   text="Argument vectors of length 0-6 over int, bigint, float, byte, bool and str (extremes and strings with quotes, backslashes, tabs, newlines, non-ASCII) are pushed by bytecode the harness encodes itself, passed through `call_lib` to a probe dylib built against the working tree's bytecode crate, and the probe prints the slice it received; the four return forms (echo first, echo last, no value, raised error) and the faults missing library / missing symbol are crossed with them. The probe's lines must equal the vector in order, `printn *` after the call must show exactly the returned value, and errors/faults must stop the program with exit status 1, the message on stderr and no later output. Every single value x form and a grid of pairs are enumerated; longer vectors are sampled.",
   note="One toolchain-matched Rust dylib; Debug/Display text of the repo's Primitive is the observation channel (floats restricted to values whose Debug form is positional)."),
 "C14": dict(cat="exploration", design="§4 C14",
   technique="property-based testing: exhaustive boundary cross products + Hypothesis random calls against independent Python implementations of every built-in",
   text="Every string and number method of the statement is called on receivers held in run-time variables over the cross product of boundary receivers (empty, 1-char, ASCII, multi-byte text; extremes of int/bigint/byte, notable floats) and boundary arguments (indices -1..len+1, exponents -1/0/1/2/31/127, radices 1/2/10/16/36/37, numeric-looking and malformed text for the parsers), plus Hypothesis-drawn calls; with typed print, kind and value must equal an independent Python implementation of the documented meaning, and out-of-domain calls must stop with a failure. The boundary cross product is complete for the listed sets; everything else is sampled.",
   note="Index-taking string methods only on ASCII receivers; pow/powf/sqrt floats with relative tolerance 1e-12; NaN-producing and lossy (to_ascii > 127, empty replace pattern, 0x-prefixed parser inputs) cases are not generated because no documented meaning exists."),
 "C16": dict(cat="exploration", design="§4 C16", engine="E-cli + E-fuzz",
   technique="grammar-derived generative fuzzing + token-level mutational fuzzing (Hypothesis) + enumerated boundary shapes; thorough adds a coverage-guided libFuzzer campaign whose crashes are re-judged through the CLI",
   text="Inputs up to 4 kB are produced by a generator derived at run time from the working tree's grammar.pest (all productions, types ignored, identifier reuse), by 1-4 token edits of the example corpus and of well-typed generated programs, by near-miss type pairs (a random type over every type constructor, a type one structural edit away, a value of it supplied in eleven typed positions), by the complete matrix of 27 infix operators x 24 x 24 atom shapes plus prefix / postfix operators x atoms (one expression per input so that the code generator is reached) and by ~90 enumerated boundary shapes (deep nesting of each bracketing construct, operator chains, huge literals, unterminated tokens, misplaced keywords, odd imports); `mscript compile --quick` must exit 0 or exit 1 with diagnostics - exit 101, a signal or a reproducible 10 s watchdog hit is a violation. The thorough tier adds a 16-process libFuzzer campaign (ASan, debug assertions, grammar dictionary, corpus seeds) against the in-memory compile hook; every artifact is replayed through the real CLI before it counts.",
   note="Absence of crashes is only sampled. Inputs matching the open finding KF-C16-2 (bracket nesting >= 300 overflows the stack) are still generated in the CLI tiers (matched by signature) and excluded by construction (nesting >= 120) inside the libFuzzer target."),
 "C11": dict(cat="exploration", design="§4 C11",
   technique="property-based testing: enumerated + Hypothesis-generated import graphs against a depth-first initialisation model, run in memory and from files",
   text="All import DAGs over up to 3 (quick) / 4 (thorough) modules x both import forms per edge x two placements of the import statements among side-effecting top-level statements are enumerated, and Hypothesis graphs over up to 5 modules add sub-directory layouts, `./` path spellings, modules imported in both forms and several importers per module; every import is followed by a call bumping the imported module's counter. The exact trace (each module initialised once at its first executed import, completed before the importer continues; one shared counter per module seen through every importer, through the module object and through exported getters) is prescribed by a simulation and must be printed by `run` and by `compile` + `execute`; four negative programs (private name through either import form, write through the module object, wrong type) must be rejected before anything runs.",
   note="A scalar bound by `import a from m` is a value copy in this language (documented by the repository's tests), so liveness of exported scalars is checked through `m.a` and getters only. `..` cannot be spelled in import paths (grammar), so parent-directory layouts are not generated."),
 "C10": dict(cat="fault_enumeration", design="§4 C10",
   technique="exhaustive enumeration of (declaration context x type x write form x write context) programs with a reject-or-unchanged oracle",
   text="All 1 820 applicable combinations of declaration context (module, function, block - each declared as `const C: T = v`, `const C = v`, by unpacking `const [C, z] = [v, 0]` or as `export const` - class name, imported module, imported member), constant type (int, str, bool, list, optional, object), write form (=, five op-assigns, ?= in four positions, modify, index/field assignment and op-assign, loop counter with and without step, unpacking, typed re-declaration) and write context (same scope, if block, from loop, while loop, nested function, closure in a block, method) are generated in both tiers, plus 320 control programs (the same program without the write must be accepted and run); each must be rejected at compile time without running, or run with the declaring scope and a closure created before the write still observing the initializer. Complete for this catalogue; forms outside it are not covered.",
   note="For imported members the repository's own test documents that `name = v` in the importer creates a local shadow; the oracle there requires the exporting module's value (read through the module and through an exported getter) to stay unchanged."),
 "C09": dict(cat="exploration", design="§4 C09",
   technique="generated programs + all-paths structural validity predicate over the emitted bytecode (both outcomes of every conditional jump explored), plus a dynamic cross-check of every executed instruction through the execution-trace hook",
   text="Every function emitted for the enumerated control-flow skeletons (9 loop kinds x wrappers to depth 2 quick / 3 thorough x break/continue/return x module/function), the example corpus and Hypothesis programs of C01/C07/C08/C12/C13/C15/C17 is decoded from the human-readable bytecode and explored over all branch outcomes: jump targets inside the function, no fall-off, done/jmp_pop never close more frames than open, equal open-frame count on every path into an instruction; a second fixpoint over operand-stack depth intervals reports instructions whose operand requirement is definitely missed, `ret` with more than one operand, and unbounded operand growth; the program is also run with the execution-trace hook and every EXECUTED instruction of single-module programs must find the operands it requires (exact counts, so a `pop` after a call that yields nothing is seen) and must be reached with the number of open block frames the static analysis computed; the run and must not report STACK MISMATCH. Exploration over programs; exhaustive over the paths of each analysed function.",
   note="Frame and operand effects per opcode are the trusted table (msv/props/c09.py, DESIGN.md Appendix C); static operand depths are intervals (a call leaves 0 or 1 value), so statically only definite violations are reported; the dynamic cross-check sees exact depths but only on executed paths."),
 "C06": dict(cat="exploration", design="§4 C06",
   technique="metamorphic property-based testing: folded vs unfolded rendering of enumerated and Hypothesis-generated literal expression trees",
   text="All depth-1 trees over 23 boundary literals of the four kinds and the operators + - * / % << >> & | xor, unary minus, !, get, or (and a reduced-leaf depth-2 family, sampled in quick, complete in thorough), plus Hypothesis trees to depth 3, optionally inside a list literal, are rendered with literals inline and with every literal bound to a variable first; with typed print the two programs must print the same kind and text, and the folded one must be rejected by constant evaluation exactly when the unfolded one fails at run time (a folded form that is accepted and fails identically at run time is tolerated).",
   note="The numeric model only batches and labels. A minus sign directly before a too-wide int literal is one literal (not generated). Type-checker rejections of the folded form (static type quirks of wide literals and mixed-kind bit operators, C02's business) are counted as rejected, not judged."),
 "C18": dict(cat="exploration", design="§4 C18",
   technique="differential testing (run vs raw-text compile -> transpile -> execute) over the corpus, Hypothesis-generated single-module programs and an exhaustive enumeration of format-special string literals",
   text="Single-module corpus files, programs from the generators of C01/C07/C08/C12/C13/C15/C17 and exhaustively all string literals up to length 3 (quick, plus a seeded sample of length 4; thorough: all up to length 4) over the format-special alphabet are compiled to human-readable bytecode, renamed, transpiled and executed; stdout and exit class must equal those of `run`, and the string programs must reproduce the bytes computed from the decoded strings.",
   note="Same normalisation as C04. The name<->opcode table is exercised only through the instructions the generated programs emit."),
 "C04": dict(cat="exploration", design="§4 C04",
   technique="differential testing (run vs compile+execute) over the example corpus, Hypothesis-generated programs of every feature area and an exhaustive enumeration of format-special string literals",
   text="For every .ms file of the example corpus, for programs drawn from the generators of C01/C07/C08/C12/C13/C15 and the two-module failing programs of C17, and exhaustively for all string literals up to length 3 (quick, plus a seeded sample of length 4; thorough: all 22 621 up to length 4) over the format-special alphabet in escaped and raw spelling (as print operand, concatenation operand and map key), stdout and exit class of `run` must equal those of `compile` + `execute`; the string programs must also reproduce the bytes computed from the decoded strings. Exploration of program space; exhaustive for the string alphabet to the stated length in the thorough tier.",
   note="Object addresses are normalised; for corpus programs lines that print maps/lists are compared as character multisets (hash order). The instruction-dump comparison of never-executed code is not implemented (observational equivalence only)."),
 "C17": dict(cat="exploration", design="§4 C17",
   technique="property-based testing: enumerated + Hypothesis-generated (failure kind x call chain) programs with a trace/banner/exit-status oracle",
   text="Each of 18 defined dynamic failures is placed at call depth 0-6 below chains mixing functions, closures, methods, list.map callbacks and functions of an imported module, optionally under if/while/from blocks; the run must print exactly the prescribed lines, exit with status 1 (not 101/134), show the FATAL RUNTIME ERROR banner and a trace whose function entries are exactly the active chain innermost-first down to __module__ (labels learnt from the program's own `print f` lines), and a failed assert must name file:line:col of that assert. Every kind x every single chain-element kind x depth 0-2 is enumerated; deeper chains are sampled.",
   note="Block frames (<if>/<else>/<while>) and native entries are dropped from the trace before comparison; failures inside constructors are not generated."),
 "C13": dict(cat="exploration", design="§4 C13",
   technique="property-based testing: Hypothesis-generated container histories (model-based) against Python lists/dicts with identity",
   text="Histories of up to 12 operations over int/str/nested/optional-element lists and str->int maps, their aliases and clones (every operation named in the statement, boundary indices -1/0/1/len-1/len/len+1, empty containers, self- and alias-join, logging and capturing callbacks) print every live container after each step; stdout and the point of failure for out-of-range indices/removals must equal the reference interpreter's. Exploration: histories are sampled.",
   note="Reference interpreter trusted; keys()/values()/pairs() compared by length and membership only; join modelled as append-copy."),
 "C08": dict(cat="exploration", design="§4 C08",
   technique="property-based testing: Hypothesis-generated object histories (model-based) against a reference interpreter with an object heap",
   text="Three classes (scalar/list/optional/class-typed fields, constructor with parameters, getters, setters, op-assign on fields, methods calling methods, methods returning self/Self and constructing Self, a method taking another instance, same member names in two classes) are driven by random histories of up to 15 steps (construct, alias, method and chained calls, field read/write/op-assign, writes through a nested field, passing to a function, list storage, `is`, replacing a class-typed field); the `n` of every live object is printed after each step and stdout must equal the reference interpreter's. Exploration: the class shapes are a fixed family with randomised constants; histories are sampled.",
   note="Reference interpreter trusted. Failures inside constructors and printing of objects are not generated."),
 "C07": dict(cat="exploration", design="§4 C07",
   technique="property-based testing: Hypothesis-generated closure scenes + call/assignment histories against a reference interpreter with explicit cells",
   text="Random scenes (module variables; factories whose locals are captured singly, shared by two closures in a list, or two levels deep; reader/setter/incrementer/shadowing/looping bodies; a higher-order caller that owns locals with the same names as captured variables; factory locals shadowing module variables) are driven by histories of up to 12 steps (instantiate, call directly / via alias / via list element / via higher-order function / inside a loop, owner assignment, is_closure) with the observable state printed after every step; stdout must equal the reference interpreter's. Exploration of scenes and histories, not exhaustive.",
   note="Reference interpreter (lexical environments, cells) trusted; is_closure() modelled as 'has free variables'."),
 "C12": dict(cat="exploration", design="§4 C12",
   technique="property-based testing: Hypothesis-generated optional-handling programs against a reference interpreter, with a position oracle for failing `get`",
   text="Random programs use == nil, get, `(x) or y` (logging fallbacks make laziness observable), `a ?= e` in statement/if/while position over optional int / str / list / object values from variables, parameters, function results, built-in results (wrapped present values), list elements and optional class fields, at module level, in nested blocks and inside functions, with nil and present operands. stdout must equal the reference interpreter's; a `get` of nil must stop the run with exit status 1, the `unwrap of nil` message and a file:line:col inside that get expression. Exploration of program space, not exhaustive.",
   note="Reference interpreter trusted; the reported column may be anywhere inside the get expression."),
 "C15": dict(cat="exploration", design="§4 C15",
   technique="property-based testing: Hypothesis-generated expression trees over logging leaves against a reference interpreter's log sequence",
   text="Expression trees up to depth 4 whose leaves are calls of logging functions (including recursive loggers that keep temporaries live across nested activations) are combined by binary operators (minimal and explicit parenthesisation), calls with 0-4 arguments, method calls, list and map literals, indexing, &&, ||, `or`; the printed log must equal the reference interpreter's: each leaf once, left to right, skipped exactly where short-circuit prescribes, followed by the value. Exploration: shapes are sampled, not enumerated.",
   note="Reference interpreter and the printer's precedence table (copied from the statement of the grammar, validated by agreement on the unchanged tree) are trusted."),
 "C01": dict(cat="exploration", design="§4 C01",
   technique="property-based testing: type-directed Hypothesis program generator + enumerated control-flow skeletons against a reference interpreter",
   text="Random well-typed programs of the core statement language (<= 80 statements, nesting <= 5, all loop forms, break/continue/return at every depth, functions, recursion, prescribed failures) and an enumerated family of control-flow skeletons (9 loop kinds x up to 2 (quick) / 3 (thorough) nested wrapper blocks of 5 kinds x break/continue/return/none x guarded/unguarded x module/function) are run through the real CLI; stdout and exit status must equal what an independent reference interpreter prescribes, including the exact point where a prescribed failure stops the output. Exploration: program space is sampled; the skeleton family is complete to its depth.",
   note="The reference interpreter (msv/model.py) is the trusted oracle: lexical scoping as the compiler enforces it, checked i32 arithmetic. Programs the compiler rejects are counted, not judged."),
 "C05": dict(cat="exploration", design="§4 C05",
   technique="property-based testing: exhaustive boundary-value matrix + Hypothesis random operands against an exact-arithmetic reference model",
   text="Every numeric operator on every kind pair is evaluated on ALL pairs of a boundary-value set per kind (quick: 11/14/11/6 values, thorough: 19/26/21/9) and on Hypothesis-generated operands; each operand reaches the operator through a run-time variable of the exact kind. The printed value and the run-time kind (typed-print hook) must equal what an independent exact model (Python integers with range checks, IEEE doubles, the statement's promotion table) prescribes, and where the result is undefined or unrepresentable the run must stop with a failure. Exploration: operands between the boundary points are only sampled.",
   note="Assumes the dev-profile build (overflow checks on) that the repository's tests use; float texts are compared by the double they denote; MIN % -1 may be 0 or a failure. Typed-print hook trusted to report the kind faithfully."),
 "C20": dict(cat="exploration", design="§4 C20",
   technique="property-based testing: enumerated + Hypothesis-generated directory trees, filesystem before/after snapshot oracle",
   text="Every 1- and 2-entry directory over (name x entry kind) is enumerated and larger trees (<= 8 entries, sub-directories, symlinks, five spellings of DIR) are generated by Hypothesis; after `mscript clean` the whole scratch tree is compared with the prescribed tree (exactly the regular *.mmm files of DIR gone, everything else byte-identical, reported count equal to the removed count, exit 0). Exploration, not proof: names outside the property's name set and deeper trees are not tried.",
   note="Trusts the scratch filesystem (tmpfs) and Python's os.walk/readlink for the snapshot; '.mmm' and symlinks named *.mmm are tolerated either way."),
}

def hook_commits():
    try:
        out = subprocess.check_output(["git", "-C", "/repo", "log", "--format=%h %s"], text=True)
        return [l.split()[0] for l in out.splitlines() if "verif hook" in l]
    except Exception:
        return []

m = {
 "version": 1,
 "setup_cmd": "./run_check.sh build",
 "hooks": {
  "guard": "mscript_verif",
  "enable": "RUSTFLAGS=\"--cfg mscript_verif\" CARGO_TARGET_DIR=/verif/.cache/target-hooks cargo build --offline (run in /repo by run_check.sh before every check)",
  "baseline_off_cmd": "cd /repo && cargo test --workspace --no-fail-fast --offline",
  "source_commits": hook_commits(),
  "add_only": True,
 },
 "engines": [
  {"name": "E-cli", "path": "msv/", "serves_properties": sorted(CHECKS), "kind_free_text": "Python package driven by Hypothesis (random cases, shrinking) and deterministic enumerators; runs the real mscript binary built from /repo's working tree; oracles = reference model / differential / validity predicates; replays are generator-free JSON scenarios"},
 ],
 "checks": [],
 "notes": "All checks: ./run_check.sh <ID> <tier>; exit 0 held, 1 VIOLATION, 2 inconclusive/infrastructure. Known findings: known_findings.json.",
 "not_applicable": [],
}
for i in ids:
    if i in CHECKS:
        c = CHECKS[i]
        m["checks"].append({
         "property_id": i,
         "quick_cmd": "./run_check.sh %s quick" % i,
         "thorough_cmd": "./run_check.sh %s thorough" % i,
         "evidence_file": "evidence/%s.json" % i,
         "replay_cmd_template": "./run_check.sh replay %s {path}" % i,
         "engine": c.get("engine", "E-cli"),
         "level_claimed": {"category": c["cat"], "text": c["text"], "design_ref": c["design"]},
         "level_note": c["note"],
         "technique": c["technique"],
        })
    else:
        m["not_applicable"].append({"property_id": i, "reason": "check under construction (not yet claimed)"})
json.dump(m, open(os.path.join(V, "MANIFEST.json"), "w"), indent=1, ensure_ascii=False)
print("checks:", len(m["checks"]), "not_applicable:", len(m["not_applicable"]))
