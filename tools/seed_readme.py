#!/usr/bin/env python3
"""tools/seed_readme.py: regenerate the table of seeded/README.md from every seeded/<ID>/meta.json (intro and tail are kept)"""
import json, os, re
root = "/verif/seeded"
text = open(os.path.join(root, "README.md"), encoding="utf-8").read()
head, rest = text.split("| id | change | needs | checks |\n|---|---|---|---|\n", 1)
lines = rest.split("\n")
k = 0
while k < len(lines) and lines[k].startswith("|"):
    k += 1
tail = "\n".join(lines[k:])
def key(i):
    m = re.match(r"C(\d+)(?:-(\d+))?", i)
    return (int(m.group(1)), int(m.group(2) or 1))
rows = []
for d in sorted((d for d in os.listdir(root) if re.match(r"C\d+", d)), key=key):
    m = json.load(open(os.path.join(root, d, "meta.json")))
    esc = lambda s: str(s).replace("|", "\\|").replace("\n", " ")
    checks = "; ".join("%s: %s" % (p, esc(v)) for p, v in m.get("checks", {}).items())
    rows.append("| %s | %s | %s | %s |" % (d, esc(m.get("change", "")), esc(m.get("needs", "")), checks))
open(os.path.join(root, "README.md"), "w", encoding="utf-8").write(head + "| id | change | needs | checks |\n|---|---|---|---|\n" + "\n".join(rows) + "\n" + tail)
print("rows:", len(rows))
