#!/usr/bin/env python3
"""debug helper: tools/try_family.py C16 <family-prefix> [binary] — run the enumerated cases whose family starts with the prefix, in-process"""
import sys, os, collections
sys.path.insert(0, os.path.dirname(os.path.dirname(os.path.abspath(__file__))))
if len(sys.argv) > 3:
    os.environ["MSV_BIN"] = sys.argv[3]
os.environ.setdefault("MSV_BIN", "/verif/.cache/target-hooks/debug/mscript")
from msv import engine
prop = engine.load_prop(sys.argv[1])
engine._KNOWN = engine.load_known(sys.argv[1])
engine._PROP = prop
cases = [c for c in prop.enumerated("quick", 0) if str(c.get("family", "")).startswith(sys.argv[2])]
print(len(cases), "cases")
cnt = collections.Counter()
shown = 0
for c in cases:
    r = engine.checked(prop, c)
    for l in r.labels:
        if l.startswith("stage="):
            cnt[l] += 1
    if r.failure:
        cnt["known" if r.known else "FAIL"] += 1
        if not r.known and shown < 5:
            shown += 1
            print("=== FAILURE", c.get("family"), r.failure["signature"]); print(r.failure["message"][:600])
print(dict(cnt))
