#!/usr/bin/env python3
"""tools/seed_tasks.py C01 C02 ...: write /tmp/seed-<ID>/TASK.md (the whole brief of a seeding sub-agent: the property record, the
deliverables, and one line per earlier change for that property so that the new one differs) into existing worktrees"""
import json, glob, os, sys
V = os.path.dirname(os.path.dirname(os.path.abspath(__file__)))
props = {json.loads(l)['id']: json.loads(l) for l in open(os.path.join(V, 'properties.jsonl'))}
for pid in sys.argv[1:]:
    p = props[pid]
    prior = []
    for d in sorted(glob.glob(os.path.join(V, 'seeded', pid)) + glob.glob(os.path.join(V, 'seeded', pid + '-*'))):
        prior.append(json.load(open(d + '/meta.json'))['change'])
    W = '/tmp/seed-%s' % pid
    rec = {k: p[k] for k in ['id', 'title', 'statement', 'quantifier', 'why_tests_cant', 'anchors']}
    t = f"""# Task: write a realistic change to mrodz/mscript that breaks one stated property

You work ONLY inside the git worktree `{W}` (a checkout of mrodz/mscript, a hobby statically typed scripting language:
pest-based compiler in `compiler/`, stack-based bytecode interpreter in `bytecode/`, CLI in `src/main.rs`). Do not read or
touch `/repo`, `/verif` or any other `/tmp/seed-*` directory. There is no network; build with
`cd {W} && CARGO_NET_OFFLINE=true cargo build --offline` (dev profile, about a minute cold; the binary is
`{W}/target/debug/mscript`; `mscript run file.ms -q`, `mscript compile file.ms --quick`, `mscript execute file.mmm`,
`mscript compile --output-format raw-text`, `mscript transpile`, `mscript clean DIR`; set RUST_BACKTRACE=0).

## The property (this is all you are told)

```json
{json.dumps(rec, indent=1)}
```

## What to produce

A change to the source of mrodz/mscript (Rust code and/or the pest grammar; NOT the tests) such that

1. the workspace still compiles without new warnings-as-errors, and the repository's whole existing test suite still passes,
   unedited: `cd {W} && cargo nextest run --workspace --no-fail-fast --test-threads 8 --offline` (193 tests; run it twice.
   If nextest is unavailable use `cargo test --workspace --no-fail-fast --offline`; three tests in leetcode::* / maps::map_properties
   are flaky under plain `cargo test` because of shared statics - rerun if only those fail);
2. the property above is **broken**: there is a concrete MScript program (or small multi-file project / command sequence) whose
   behaviour with your change contradicts the property, while the unchanged code behaves as the property says;
3. the breakage needs **something specific to manifest** - a particular multi-step sequence of operations, an unusual but valid
   input, a particular combination of two features, two cooperating sites that each look fine alone, a boundary value - and is
   NOT exposed by ordinary simple use (a ten-line hello-world style program of the affected feature must still work). Look for
   the kind of plausible slip or well-meant "optimisation"/"clean-up"/"fix" a maintainer could really commit. Small diffs
   (a few lines to a few dozen) are best. It must be a semantic change in real logic - not a sabotage keyed on a magic constant or name.
4. It must be **different in mechanism and in triggering input** from these earlier changes (already used, do not repeat or
   make a near variant of any of them):
{chr(10).join('   - ' + c for c in prior)}

Before choosing, read the anchored code, and probe the unchanged binary so you know what really happens today (some corner
cases may already misbehave on the unchanged tree: such pre-existing oddities are NOT what is wanted - note them in the README
under "pre-existing" and pick something that works today and breaks with your change).

## Deliverables, all in `{W}/SEED/`

* `patch.diff` - output of `git -C {W} diff` (source changes only; make sure SEED/ and TASK.md are not in it);
* `demo.ms` (plus any other files / sub-directories the demonstration needs, and `demo.sh` if it is a command sequence rather
  than `mscript run demo.ms -q`) - the demonstration;
* `expected.txt` - the exact stdout the property prescribes (what the unchanged build prints);
* `output_unchanged.txt` / `output_with_change.txt` - what you observed with each build (stdout, then a line `exit=<n>`);
  keep a copy of the unchanged binary before you edit (`cp target/debug/mscript mscript.orig` in the worktree root);
* `neighbours/` - two or three small programs close to the demo that still behave correctly with the change (shows it needs
  the specific trigger);
* `README.md` - what was changed and why it looks plausible, exactly what is needed to manifest, which simpler uses still
  work, anything pre-existing you noticed, and the commands you ran (build, tests twice with their pass counts, demo with both builds).

Leave the change applied in the worktree when you finish (do not commit). Finish with a five-line summary: file(s) changed,
trigger, test-suite result, demo result with / without the change.
"""
    open(W + '/TASK.md', 'w').write(t)
    print("wrote", W + '/TASK.md', len(prior), "earlier changes listed")
