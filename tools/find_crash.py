import sys, os, subprocess
sys.path.insert(0,'/verif')
from msv import engine
pid, seed, n = sys.argv[1], int(sys.argv[2]), sys.argv[3]
for w in range(16):
    sd = engine.derive_seed(seed, pid, w)
    p = subprocess.run(['/opt/veriftools/pyvenv/bin/python','tools/try_prop.py',pid,n,str(sd)],capture_output=True,text=True,cwd='/verif',timeout=900)
    print(w, p.returncode, (p.stdout.splitlines() or [''])[0][:100], p.stderr[-300:].replace('\n',' | '), flush=True)
