#!/usr/bin/env python3
"""tools/findings_table.py: regenerate the table of DESIGN.md section 7 from known_findings.json (text around it is kept)"""
import json, re
p = "/verif/DESIGN.md"
text = open(p, encoding="utf-8").read()
hdr = "| id | status | witness | what failed |\n|---|---|---|---|\n"
head, rest = text.split(hdr, 1)
lines = rest.split("\n")
k = 0
while k < len(lines) and lines[k].startswith("|"):
    k += 1
tail = "\n".join(lines[k:])
data = json.load(open("/verif/known_findings.json"))
lst = data["findings"] if isinstance(data, dict) else data
rows = []
for f in lst:
    d = f["description"]
    d = re.sub(r"^(fixed|KNOWN-FINDING|open): property=\S+\s+", "", d)
    if f["status"] == "fixed":
        d = re.sub(r"^[0-9a-f]{7}(\s*\+\s*[0-9a-f]{7})*\s+", "", d)
        st = "fixed " + " + ".join("`%s`" % c for c in re.findall(r"[0-9a-f]{7}", str(f.get("commit", ""))))
    else:
        st = "open"
    d = d.replace("|", "\\|").replace("\n", " ")
    rows.append("| %s | %s | %s | %s |" % (f["id"], st, f.get("witness", ""), d))
open(p, "w", encoding="utf-8").write(head + hdr + "\n".join(rows) + "\n" + tail)
print("rows:", len(rows))
