#!/bin/bash
# tools/seed_demo.sh <ID>: re-run the demonstration of /tmp/seed-<ID>/SEED with the changed binary (the worktree's) and the unchanged one (/verif's hook build)
ID=$1; S=/tmp/seed-$ID/SEED; O=/verif/.cache/target-hooks/debug/mscript; N=/tmp/seed-$ID/target/debug/mscript
export RUST_BACKTRACE=0 NO_COLOR=1
D=$(mktemp -d /dev/shm/seeddemo.XXXX); cp -r $S/. $D/; cd $D
if [ -f demo.sh ]; then echo "(demo.sh present: $(grep -c . demo.sh) lines; usage line: $(grep -m1 -i usage demo.sh))"; fi
$O run demo.ms -q > o.out 2> o.err; echo "unchanged: exit=$?"
$N run demo.ms -q > n.out 2> n.err; echo "changed:   exit=$?"
if diff -q o.out expected.txt >/dev/null; then echo "unchanged stdout == expected.txt"; else echo "unchanged stdout != expected.txt:"; diff o.out expected.txt | head -5; fi
if diff -q n.out expected.txt >/dev/null; then echo "changed stdout == expected.txt (!!)"; else echo "changed stdout differs from expected.txt:"; diff n.out expected.txt | head -6; fi
echo "changed stderr tail:"; tail -4 n.err | cut -c1-220
cd /; rm -rf $D
