#!/usr/bin/env python3
"""tools/seed_save.py <ID> <json meta>: copy a confirmed seeded change from /tmp/seed-<ID>/SEED into /verif/seeded/<ID>/"""
import sys, os, shutil, json
sid, meta = sys.argv[1], json.loads(sys.argv[2])
src = "/tmp/seed-%s/SEED" % meta.get("worktree", sid)
dst = "/verif/seeded/%s" % sid
os.makedirs(dst, exist_ok=True)
for n in os.listdir(src):
    p = os.path.join(src, n)
    if os.path.isdir(p):
        try:
            shutil.copytree(p, os.path.join(dst, n), dirs_exist_ok=True, symlinks=True)
        except shutil.Error as e:
            print('WARNING: not everything under', n, 'could be copied:', str(e)[:300])
    elif os.path.getsize(p) < 200000 and (not n.endswith(".mmm") or n.endswith(".transpiled.mmm")):
        shutil.copy(p, os.path.join(dst, n))
json.dump(meta, open(os.path.join(dst, "meta.json"), "w"), indent=1)
print("saved", dst, sorted(os.listdir(dst)))
