#!/bin/bash
# tools/seed_eval2.sh <ID> [props...]: confirm the seeded change in /tmp/seed-<ID> (build, test suite twice) and run the quick check(s) against it
ID=$1; shift; PROPS=${@:-$ID}; W=/tmp/seed-$ID
export RUST_BACKTRACE=0 CARGO_NET_OFFLINE=true
echo "== $ID patch: $(grep -c '^[+-][^+-]' $W/SEED/patch.diff) changed lines in $(grep -c '^diff ' $W/SEED/patch.diff) file(s): $(grep '^diff ' $W/SEED/patch.diff | sed 's/.* b\///' | tr '\n' ' ')"
(cd $W && cargo build --offline 2>&1 | tail -1 | cut -c1-60; for i in 1 2; do cargo test --workspace --no-fail-fast --offline 2>&1 | grep -E "^test result: .* [1-9][0-9]* passed|FAILED" | sed 's/; 0 ignored.*//' | tr '\n' ';' | cut -c1-200; echo; done)
cd /verif && python3 tools/mut.py --patch $W/SEED/patch.diff --props $PROPS 2>&1 | grep -E "CAUGHT|MISSED|FAILED" | sed "s/^patch.diff */$ID /" | cut -c1-420
