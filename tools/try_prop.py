#!/usr/bin/env python3
"""debug helper: tools/try_prop.py C01 [n] [seed] — run n random cases in-process, print the first failures / rejections."""
import sys, os
sys.path.insert(0, os.path.dirname(os.path.dirname(os.path.abspath(__file__))))
os.environ.setdefault("MSV_BIN", "/verif/.cache/target-hooks/debug/mscript")
from hypothesis import given, settings, HealthCheck, Phase, Verbosity, seed
from msv import engine
pid = sys.argv[1]
n = int(sys.argv[2]) if len(sys.argv) > 2 else 200
sd = int(sys.argv[3]) if len(sys.argv) > 3 else 0
prop = engine.load_prop(pid)
engine._KNOWN = engine.load_known(pid)
engine._PROP = prop
stats = engine.Stats()
shown = [0]
@seed(sd)
@settings(max_examples=n, database=None, deadline=None, suppress_health_check=list(HealthCheck), phases=[Phase.generate], verbosity=Verbosity.quiet)
@given(prop.strategy("quick"))
def t(case):
    r = engine.checked(prop, case)
    stats.add(r)
    if r.failure and not r.known and shown[0] < int(os.environ.get("SHOW", "3")):
        shown[0] += 1
        print("=== FAILURE", r.failure["signature"])
        print(r.failure["message"][:1500])
        sc = r.failure["scenario"]
        if sc:
            for f, c in sc["files"].items():
                if f.endswith(".ms"):
                    print("--- " + f); print(c if isinstance(c, str) else c)
t()
print("cases", stats.cases, "evals", stats.evals, "nt", len(stats.nt), "rejected", stats.rejected, "known", stats.known)
for k, v in sorted(stats.labels.items()):
    print("  %-40s %d" % (k, v))
