#!/usr/bin/env python3
"""Sensitivity runs: apply a catalogued mutation (or a patch file) to a scratch copy of /repo under /dev/shm,
run the named checks against the copy, report caught / missed, remove the copy.
usage: tools/mut.py <mutation-name>|--patch <file> [--props C01,C09] [--tier quick] [--keep] [--tests]"""
import sys, os, json, subprocess, shutil, argparse, time
V = os.path.dirname(os.path.dirname(os.path.abspath(__file__)))
ap = argparse.ArgumentParser()
ap.add_argument("name", nargs="?")
ap.add_argument("--patch")
ap.add_argument("--props")
ap.add_argument("--tier", default="quick")
ap.add_argument("--keep", action="store_true")
ap.add_argument("--tests", action="store_true", help="also run the repository's own test suite on the mutant")
ap.add_argument("--seed", default="0")
a = ap.parse_args()
cat = json.load(open(os.path.join(V, "tools", "mutations.json")))
if a.patch:
    m = {"name": os.path.basename(a.patch), "props": (a.props or "").split(","), "edits": []}
else:
    m = [x for x in cat if x["name"] == a.name][0]
props = a.props.split(",") if a.props else m["props"]
root = "/dev/shm/mut-%s-%d" % (m["name"].replace("/", "_"), os.getpid())
repo = root + "/repo"
os.makedirs(root)
try:
    subprocess.check_call(["rsync", "-a", "--exclude", "target", "--exclude", ".git", "/repo/", repo + "/"])
    subprocess.check_call(["cp", "-a", os.path.join(V, ".cache", "target-hooks"), root + "/target"])
    if a.patch:
        subprocess.check_call(["patch", "-p1", "-d", repo, "-i", os.path.abspath(a.patch)])
    for e in m["edits"]:
        p = os.path.join(repo, e["file"])
        s = open(p).read()
        if s.count(e["old"]) != 1:
            print("MUTATION DOES NOT APPLY (%d matches): %s" % (s.count(e["old"]), e["old"][:80]))
            sys.exit(3)
        open(p, "w").write(s.replace(e["old"], e["new"]))
    env = dict(os.environ, VERIF_REPO=repo, MSV_TARGET=root + "/target", MSV_EVIDENCE_DIR=root + "/evidence",
               MSV_VIOLATIONS_DIR=root + "/violations", VERIF_SEED=a.seed)
    if a.tests:
        t = subprocess.run("cd %s && CARGO_TARGET_DIR=%s/target-tests cargo test --workspace --no-fail-fast --offline 2>&1 | grep -E '^test result|FAILED|failed' | head -20" % (repo, root),
                           shell=True, capture_output=True, text=True)
        print("repo tests on mutant:\n" + t.stdout)
    for pid in props:
        t0 = time.time()
        p = subprocess.run([os.path.join(V, "run_check.sh"), pid, a.tier], env=env, capture_output=True, text=True)
        lines = [l for l in p.stdout.splitlines() if l.startswith("VIOLATION") or l.startswith("  ")][:4]
        verdict = {0: "MISSED", 1: "CAUGHT", 2: "INCONCLUSIVE"}.get(p.returncode, "rc=%d" % p.returncode)
        if p.returncode == 1 and not any(l.startswith("VIOLATION property=") for l in p.stdout.splitlines()):
            verdict = "CRASHED(exit 1 without a VIOLATION line)"
        print("%-28s %s %s  (%.0fs)  %s" % (m["name"], pid, verdict, time.time() - t0, " | ".join(x.strip()[:300] for x in lines)))
        if p.returncode == 2:
            print(p.stderr[-1500:])
finally:
    if not a.keep:
        shutil.rmtree(root, ignore_errors=True)
    else:
        print("kept", root)
