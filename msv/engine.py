"""Generic runner: replay tier, enumerated cases, Hypothesis-driven random cases in parallel
workers, shrinking, confirmation, replay + evidence files, known findings."""
import os, sys, json, glob, time, hashlib, fnmatch, importlib, traceback, multiprocessing, random
from concurrent.futures import ProcessPoolExecutor, as_completed
from concurrent.futures.process import BrokenProcessPool
from . import scenario, execu

VERIF = os.path.dirname(os.path.dirname(os.path.abspath(__file__)))
WORKERS = int(os.environ.get("MSV_WORKERS", "16"))


class CaseResult:
    """Outcome of checking one generated case."""
    __slots__ = ("evals", "nt_keys", "labels", "sample", "failure", "known", "rejected", "inconclusive")

    def __init__(self, evals=1, nt_keys=(), labels=(), sample=None, failure=None, rejected=False):
        self.evals = evals
        self.nt_keys = list(nt_keys)
        self.labels = list(labels)
        self.sample = sample
        self.failure = failure      # None | {"message","signature","scenario", optional "inconclusive"}
        self.known = None
        self.rejected = rejected
        self.inconclusive = False


def fail(message, signature, sc, **extra):
    d = {"message": message, "signature": signature, "scenario": sc}
    d.update(extra)
    return d


def h8(s):
    return hashlib.blake2b(s.encode("utf-8", "surrogateescape"), digest_size=8).digest()


class Stats:
    def __init__(self):
        self.cases = 0
        self.evals = 0
        self.nt = set()
        self.labels = {}
        self.samples = []
        self.known = {}
        self.rejected = 0
        self.inconclusive = []
        self.transient = []
        self.errors = []

    def add(self, r):
        self.cases += 1
        self.evals += r.evals
        for k in r.nt_keys:
            self.nt.add(h8(k))
        for l in r.labels:
            self.labels[l] = self.labels.get(l, 0) + 1
        if r.sample is not None and len(self.samples) < 3:
            self.samples.append(r.sample)
        if r.rejected:
            self.rejected += 1
        if r.known:
            self.known[r.known] = self.known.get(r.known, 0) + 1
        if r.inconclusive:
            self.inconclusive.append(r.failure["message"][-900:])

    def merge(self, o):
        self.cases += o.cases
        self.evals += o.evals
        self.nt |= o.nt
        for k, v in o.labels.items():
            self.labels[k] = self.labels.get(k, 0) + v
        for s in o.samples:
            if len(self.samples) < 6:
                self.samples.append(s)
        for k, v in o.known.items():
            self.known[k] = self.known.get(k, 0) + v
        self.rejected += o.rejected
        self.inconclusive += o.inconclusive
        self.errors += o.errors


def load_prop(pid):
    return importlib.import_module("msv.props." + pid.lower())


def load_known(pid):
    p = os.path.join(VERIF, "known_findings.json")
    if not os.path.exists(p):
        return []
    return [e for e in json.load(open(p))["findings"] if e["property"] == pid]


_KNOWN = []
_PROP = None


def match_known(sig):
    for e in _KNOWN:
        if e["status"] == "open" and fnmatch.fnmatchcase(sig, e["signature"]):
            return e["id"]
    return None


def checked(prop, case):
    """prop.check + known-finding classification + inconclusive handling."""
    r = prop.check(case)
    if r.failure:
        if r.failure.get("inconclusive"):
            r.inconclusive = True
        else:
            k = match_known(r.failure["signature"])
            if k:
                r.known = k
    return r


def _enum_worker(args):
    idx, case = args
    try:
        r = checked(_PROP, case)
    except Exception:
        r = CaseResult(evals=0)
        r.failure = {"message": "harness error: " + traceback.format_exc(), "signature": "harness-error",
                     "scenario": None, "inconclusive": True}
        r.inconclusive = True
    return idx, r


def _enum_chunk(items):
    return [_enum_worker(it) for it in items]


def _init_worker():
    try:
        import resource
        resource.setrlimit(resource.RLIMIT_AS, (6 << 30, 6 << 30))
    except Exception:
        pass


def derive_seed(seed, pid, w):
    return int.from_bytes(hashlib.blake2b(("%d/%s/%d" % (seed, pid, w)).encode(), digest_size=8).digest(), "big")


def _hyp_worker(args):
    """Phase A (shrink=False): generate-only, stops at the first unknown failure.
    Phase B (shrink=True): the same seed again with Hypothesis' shrinker, under a time budget."""
    pid, tier, seed, w, n, shrink = args
    from hypothesis import given, settings, HealthCheck, Phase, Verbosity, seed as hseed
    prop = _PROP
    st = Stats()
    state = {"first": None, "last": None, "t0": None}
    budget = float(os.environ.get("MSV_SHRINK_BUDGET", "90" if tier == "quick" else "240"))

    @hseed(derive_seed(seed, pid, w))
    @settings(max_examples=n, database=None, deadline=None, suppress_health_check=list(HealthCheck),
              phases=[Phase.generate, Phase.shrink] if shrink else [Phase.generate], report_multiple_bugs=False,
              verbosity=Verbosity.quiet, derandomize=False)
    @given(prop.strategy(tier))
    def t(case):
        if state["t0"] is not None and time.time() - state["t0"] > budget:
            return          # shrink budget used up: let Hypothesis wind down; the best failure so far is kept
        r = checked(prop, case)
        if state["first"] is None:
            st.add(r)
        if r.failure and not r.known and not r.inconclusive:
            sig = r.failure["signature"]
            if state["first"] is None:
                state["first"] = sig
                state["t0"] = time.time()
            if sig == state["first"]:
                state["last"] = r.failure
                raise AssertionError(sig)

    try:
        t()
    except BaseException:
        if state["last"] is None:
            st.errors.append("worker %d: %s" % (w, traceback.format_exc()[-2000:]))
    return w, st, state["last"]


def confirm(sc, times=3):
    """Re-run a failing scenario from fresh processes; all runs must fail."""
    n = 0
    last = None
    for _ in range(times):
        res, fails, _ = scenario.execute(sc)
        if fails:
            n += 1
            last = (res, fails)
    return n, last


def write_violation(pid, failure, observed=None):
    d = os.path.join(os.environ.get("MSV_VIOLATIONS_DIR", os.path.join(VERIF, "violations")), pid)
    os.makedirs(d, exist_ok=True)
    rep = {"property": pid, "signature": failure["signature"], "message": failure["message"],
           "case": failure.get("case"), "scenario": failure["scenario"]}
    if observed:
        rep["observed"] = {k: v.to_json() for k, v in observed[0].items()}
        rep["failures"] = observed[1]
    path = os.path.join(d, scenario.sc_hash(failure["scenario"]) + ".json")
    json.dump(rep, open(path, "w"), indent=1, ensure_ascii=True)
    return path


def run_replay_tier(pid, known, stats_extra):
    """Every committed replay of the property: open known findings must be announced, all others must pass."""
    violations = []
    by_witness = {e["witness"]: e for e in known if e.get("witness")}
    files = sorted(glob.glob(os.path.join(VERIF, "replays", pid, "*.json")))
    if os.environ.get("MSV_SKIP_REPLAY"):
        files = []          # sensitivity experiments only: judge a tree by the generators alone
    n = 0
    for path in files:
        rel = os.path.relpath(path, VERIF)
        rep = json.load(open(path))
        res, fails, _ = scenario.execute(rep["scenario"])
        n += 1
        e = by_witness.get(rel)
        if e and e["status"] == "open":
            if fails:
                print("KNOWN-FINDING: property=%s %s [%s]" % (pid, e["description"], e["id"]))
                stats_extra["known_findings_reproduced"].append(e["id"])
            else:
                stats_extra["known_findings_not_reproduced"].append(e["id"])
        else:
            if fails:
                # confirm before alarming
                c, _ = confirm(rep["scenario"])
                if c == 3:
                    violations.append((path, fails))
                else:
                    stats_extra["flaky_replays"].append(rel)
    for e in known:
        if e["status"] == "open" and e.get("witness") and not os.path.exists(os.path.join(VERIF, e["witness"])):
            stats_extra["flaky_replays"].append("missing witness " + e["witness"])
    stats_extra["replays_run"] = n
    return violations


def run_check(pid, tier, seed):
    global _KNOWN, _PROP
    t0 = time.time()
    execu.cleanup_stale()
    if not os.path.exists(execu.MSCRIPT):
        print("INFRA: %s not built" % execu.MSCRIPT, file=sys.stderr)
        return 2
    prop = load_prop(pid)
    _PROP = prop
    known = load_known(pid)
    _KNOWN = known
    extra = {"known_findings_reproduced": [], "known_findings_not_reproduced": [], "flaky_replays": [], "replays_run": 0}
    stats = Stats()
    violation = None   # (path, message)

    # 1. replay tier
    rv = run_replay_tier(pid, known, extra)
    if rv:
        path, fails = rv[0]
        violation = (path, "replay failed: " + "; ".join(fails)[:600])

    ctx = multiprocessing.get_context("fork")
    candidates = []
    # 2. enumerated cases
    enum_exhaustive = False
    if violation is None and hasattr(prop, "enumerated"):
        cases = prop.enumerated(tier, seed)
        if cases:
            enum_exhaustive = bool(getattr(prop, "EXHAUSTIVE", {}).get(tier, False)) if isinstance(getattr(prop, "EXHAUSTIVE", None), dict) else False
            chunk = max(1, min(16, len(cases) // (WORKERS * 8) or 1))
            items = list(enumerate(cases))
            try:
                with ProcessPoolExecutor(WORKERS, mp_context=ctx, initializer=_init_worker) as ex:
                    futs = [ex.submit(_enum_chunk, items[i:i + chunk]) for i in range(0, len(items), chunk)]
                    for fu in as_completed(futs):
                        for idx, r in fu.result():
                            stats.add(r)
                            if r.failure and not r.known and not r.inconclusive:
                                candidates.append(((0, idx), r.failure))
            except BrokenProcessPool:
                stats.errors.append("a worker process died during the enumerated phase (killed / out of memory)")
    # 3. random cases under Hypothesis
    n_random = prop.n_random(tier) if hasattr(prop, "n_random") else 0
    if violation is None and not candidates and n_random > 0:
        per = max(1, n_random // WORKERS)
        try:
            with ProcessPoolExecutor(WORKERS, mp_context=ctx, initializer=_init_worker) as ex:
                futs = [ex.submit(_hyp_worker, (pid, tier, seed, w, per, False)) for w in range(WORKERS)]
                failing = []
                for fu in as_completed(futs):
                    w, st, last = fu.result()
                    stats.merge(st)
                    if last is not None:
                        failing.append((w, last))
                if failing:
                    failing.sort(key=lambda x: x[0])
                    w0, unshrunk = failing[0]
                    # shrink only the lowest-index failing worker's case (deterministic, bounded)
                    _, _, shrunk = ex.submit(_hyp_worker, (pid, tier, seed, w0, per, True)).result()
                    candidates.append(((1, w0, 0), shrunk if shrunk is not None else unshrunk))
                    candidates.append(((1, w0, 1), unshrunk))
        except BrokenProcessPool:
            stats.errors.append("a worker process died during the random phase (killed / out of memory)")
    # 4. property-specific extra phase (e.g. a coverage-guided fuzzing campaign whose crashes are re-judged through check())
    extra_info = None
    if violation is None and not candidates and hasattr(prop, "extra_phase"):
        try:
            extra_cases, extra_info = prop.extra_phase(tier, seed)
            for idx, case in enumerate(extra_cases):
                _, r = _enum_worker((idx, case))
                stats.add(r)
                if r.failure and not r.known and not r.inconclusive:
                    candidates.append(((2, idx), r.failure))
        except Exception:
            stats.errors.append("extra phase: " + traceback.format_exc()[-1500:])
    exit_code = 0
    nviol = 0
    if violation is None and candidates:
        candidates.sort(key=lambda c: c[0])
        for _, failure in candidates[:5]:
            if failure["scenario"] is None:
                continue
            c, last = confirm(failure["scenario"])
            if c == 3:
                path = write_violation(pid, failure, last)
                violation = (path, failure["message"])
                break
            elif c == 0:
                # the saved scenario passes three times out of three from fresh processes: the first failure was noise of the
                # machine (a watchdog hit under load), not a behaviour of the code under test.  Counted, reported, not a verdict.
                stats.transient.append("failed once, then passed 3/3 on re-run: %s" % failure["message"][:300])
            else:
                stats.inconclusive.append("non-reproducible failure (%d/3): %s" % (c, failure["message"][:300]))
    for t in stats.transient[:5]:
        print("NOTE: " + t[:600], file=sys.stderr)
    if violation:
        nviol = 1
        print("VIOLATION property=%s replay=%s" % (pid, violation[0]))
        print("  " + violation[1][:1500].replace("\n", "\n  "))
        exit_code = 1
    elif stats.errors or stats.inconclusive:
        for e in (stats.errors + stats.inconclusive)[:5]:
            print("INCONCLUSIVE: " + e[:800], file=sys.stderr)
        exit_code = 2

    wall = time.time() - t0
    cov = {
        "evaluations": stats.evals,
        "cases": stats.cases,
        "distinct_nontrivial": len(stats.nt),
        "rule": prop.RULE,
        "samples": stats.samples[:5] or ["<none>"],
        "classes": dict(sorted(stats.labels.items())),
        "rejected_by_compiler": stats.rejected,
        "known_finding_hits": stats.known,
        "inconclusive": len(stats.inconclusive) + len(stats.errors),
        "transient_failures_not_reproduced": len(stats.transient),
        "random_cases_requested": n_random,
        "workers": WORKERS,
    }
    cov.update(extra)
    if extra_info:
        cov["extra_phase"] = extra_info
    if enum_exhaustive:
        cov["exhaustive"] = True
    ev = {"property_id": pid, "tier": tier, "seed": seed, "level": prop.LEVEL, "coverage": cov,
          "assumptions": list(getattr(prop, "ASSUMPTIONS", [])), "wall_s": round(wall, 2), "violations": nviol}
    evdir = os.environ.get("MSV_EVIDENCE_DIR", os.path.join(VERIF, "evidence"))
    os.makedirs(evdir, exist_ok=True)
    json.dump(ev, open(os.path.join(evdir, pid + ".json"), "w"), indent=1, ensure_ascii=True)
    print("%s %s seed=%d: cases=%d evaluations=%d nontrivial=%d known_hits=%d rejected=%d wall=%.1fs exit=%d" % (
        pid, tier, seed, stats.cases, stats.evals, len(stats.nt), sum(stats.known.values()), stats.rejected, wall, exit_code))
    return exit_code


def run_replay(pid, path):
    load_prop(pid)  # registers custom assertion kinds
    rep = json.load(open(path))
    res, fails, _ = scenario.execute(rep["scenario"])
    if fails:
        print("VIOLATION property=%s replay=%s" % (pid, path))
        for f in fails:
            print("  " + f[:1500])
        return 1
    print("replay passed: %s" % path)
    return 0
