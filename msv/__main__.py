import sys, argparse
from . import engine


def main():
    ap = argparse.ArgumentParser(prog="msv")
    sub = ap.add_subparsers(dest="cmd", required=True)
    c = sub.add_parser("check")
    c.add_argument("id")
    c.add_argument("--tier", default="quick", choices=["quick", "thorough"])
    c.add_argument("--seed", type=int, default=0)
    r = sub.add_parser("replay")
    r.add_argument("id")
    r.add_argument("path")
    a = ap.parse_args()
    if a.cmd == "check":
        sys.exit(engine.run_check(a.id.upper(), a.tier, a.seed))
    else:
        sys.exit(engine.run_replay(a.id.upper(), a.path))


try:
    main()
except SystemExit:
    raise
except BaseException:
    # an exception of the harness is an infrastructure problem (exit 2), never a verdict about the property (exit 1)
    import traceback
    traceback.print_exc()
    print("INCONCLUSIVE: the harness raised an exception (see the traceback on stderr)")
    sys.exit(2)
