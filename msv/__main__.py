import sys, argparse
from . import engine


def main():
    ap = argparse.ArgumentParser(prog="msv")
    sub = ap.add_subparsers(dest="cmd", required=True)
    c = sub.add_parser("check")
    c.add_argument("id")
    c.add_argument("--tier", default="quick", choices=["quick", "thorough"])
    c.add_argument("--seed", type=int, default=0)
    r = sub.add_parser("replay")
    r.add_argument("id")
    r.add_argument("path")
    a = ap.parse_args()
    if a.cmd == "check":
        sys.exit(engine.run_check(a.id.upper(), a.tier, a.seed))
    else:
        sys.exit(engine.run_replay(a.id.upper(), a.path))


main()
