"""Reference semantics of built-in methods (lists, maps, strings) for the model interpreter."""
from .model import MList, MMap, MFunc, MSFail, values_equal, key_of
from .num import Num


def I(v):
    return Num("int", v)


def method(it, r, name, argv, node):
    if r is None:
        raise MSFail("nil", node)
    if isinstance(r, MList):
        return list_method(it, r, name, argv, node)
    if isinstance(r, MMap):
        return map_method(it, r, name, argv, node)
    if isinstance(r, str):
        return str_method(it, r, name, argv, node)
    if isinstance(r, MFunc) and name == "is_closure":
        return bool(r.free)
    from .model import MObj
    if isinstance(r, MObj):
        return it.call_method(r, name, argv, node)
    if name == "to_str":
        from .model import show
        return show(r)
    raise ValueError("no model for method %s on %r" % (name, r))


def list_method(it, l, name, argv, node):
    if name == "len":
        return I(len(l.items))
    if name == "push":
        l.items.extend(argv)
        return None
    if name == "remove":
        i = argv[0].v
        if not (0 <= i < len(l.items)):
            raise MSFail("index", node)
        return l.items.pop(i)
    if name == "reverse":
        l.items.reverse()
        return None
    if name == "clear":
        l.items.clear()
        return None
    if name == "clone":
        return MList(list(l.items))
    if name == "index_of":
        for i, x in enumerate(l.items):
            if values_equal(x, argv[0]):
                return I(i)
        return None
    if name == "join":
        other = argv[0]
        l.items.extend(list(other.items))
        return l
    if name in ("map", "filter"):
        # the elements are visited by a LIVE index: an element the callback appends to the receiver is visited too, one it
        # removes before its turn is not (after each call: continue while index < current length)
        out, i = [], 0
        while i < len(l.items):
            x = l.items[i]
            i += 1
            r = it.call(argv[0], [x], node)
            if name == "map":
                out.append(r)
            elif r is True:
                out.append(x)
        return MList(out)
    raise ValueError("no model for list." + name)


def map_method(it, m, name, argv, node):
    if name == "len":
        return I(len(m.d))
    if name == "contains_key":
        return key_of(argv[0]) in m.d
    if name == "replace":
        old = m.d.get(key_of(argv[0]))
        m.d[key_of(argv[0])] = (argv[0], argv[1])
        return old[1] if old else None
    if name == "remove":
        old = m.d.pop(key_of(argv[0]), None)
        return old[1] if old else None
    if name == "clear":
        m.d.clear()
        return None
    if name == "clone":
        return MMap(dict(m.d))
    if name == "keys":
        return MList([k for k, _ in m.d.values()])
    if name == "values":
        return MList([v for _, v in m.d.values()])
    if name == "pairs":
        return MList([MList([k, v]) for k, v in m.d.values()])
    raise ValueError("no model for map." + name)


def str_method(it, s, name, argv, node):
    if name == "len":
        return I(len(s))
    if name == "contains":
        return argv[0] in s
    if name == "to_str":
        return s
    if name == "parse_int":
        import re
        if re.match(r"^[+-]?[0-9]+$", s) and -2 ** 31 <= int(s) <= 2 ** 31 - 1:
            return I(int(s))
        return None
    raise ValueError("no model for str." + name)
