"""Running the real `mscript` binary in a contained scratch directory."""
import os, shutil, subprocess, resource, itertools, base64

MSCRIPT = os.environ.get("MSV_BIN", "/verif/.cache/target-hooks/debug/mscript")
_roots = ["/dev/shm", "/verif/.work"]
_counter = itertools.count()


def scratch_root():
    for r in _roots:
        try:
            os.makedirs(r, exist_ok=True)
            if os.access(r, os.W_OK):
                return r
        except OSError:
            pass
    raise RuntimeError("no scratch space")


def new_case_dir():
    d = os.path.join(scratch_root(), "msv-%d-%d" % (os.getpid(), next(_counter)))
    os.makedirs(d)
    return d


def cleanup_stale():
    """Remove scratch dirs of dead processes."""
    root = scratch_root()
    for name in os.listdir(root):
        if not name.startswith("msv-"):
            continue
        try:
            pid = int(name.split("-")[1])
        except (ValueError, IndexError):
            continue
        if not os.path.exists("/proc/%d" % pid):
            shutil.rmtree(os.path.join(root, name), ignore_errors=True)


def _limits():
    # 8 GiB address space, no core files
    try:
        resource.setrlimit(resource.RLIMIT_AS, (8 << 30, 8 << 30))
        resource.setrlimit(resource.RLIMIT_CORE, (0, 0))
    except Exception:
        pass


class Outcome:
    __slots__ = ("stdout", "stderr", "code", "klass")

    def __init__(self, stdout, stderr, code, klass):
        self.stdout, self.stderr, self.code, self.klass = stdout, stderr, code, klass

    def to_json(self):
        return {"stdout": self.stdout[-4000:], "stderr": self.stderr[-3000:], "code": self.code, "class": self.klass}


def classify_exit(code):
    if code == 0:
        return "ok"
    if code == 1:
        return "error"
    if code == 101:
        return "panic"
    if code is None:
        return "timeout"
    if code < 0:
        return "signal"
    if code in (134, 139):
        return "signal"
    return "other"


BASE_ENV = {
    "PATH": "/usr/bin:/bin",
    "RUST_BACKTRACE": "0",
    "NO_COLOR": "1",
    "HOME": "/nonexistent",
    "LANG": "C.UTF-8",
}


def run_cmd(argv, cwd, env=None, timeout=30.0):
    e = dict(BASE_ENV)
    if env:
        e.update(env)
    argv = [MSCRIPT if a == "mscript" and i == 0 else a for i, a in enumerate(argv)]
    try:
        p = subprocess.run(argv, cwd=cwd, env=e, stdin=subprocess.DEVNULL, stdout=subprocess.PIPE,
                           stderr=subprocess.PIPE, timeout=timeout, preexec_fn=_limits)
        code = p.returncode
        out, err = p.stdout, p.stderr
    except subprocess.TimeoutExpired as t:
        code = None
        out, err = t.stdout or b"", t.stderr or b""
    return Outcome(out.decode("utf-8", "surrogateescape"), err.decode("utf-8", "surrogateescape"), code,
                   classify_exit(code))


def write_tree(root, files=None, dirs=None, symlinks=None, modes=None):
    for d in dirs or []:
        os.makedirs(os.path.join(root, d), exist_ok=True)
    for rel, content in (files or {}).items():
        p = os.path.join(root, rel)
        os.makedirs(os.path.dirname(p), exist_ok=True)
        if isinstance(content, dict):
            data = base64.b64decode(content["b64"]) if "b64" in content else content["text"].encode("utf-8", "surrogateescape")
        elif isinstance(content, bytes):
            data = content
        else:
            data = content.encode("utf-8", "surrogateescape")
        with open(p, "wb") as f:
            f.write(data)
    for rel, target in (symlinks or {}).items():
        p = os.path.join(root, rel)
        os.makedirs(os.path.dirname(p), exist_ok=True)
        target = target.replace("{PROBE2}", os.environ.get("MSV_PROBE2", "/verif/.cache/target-hooks-ffi2/debug/libmsv_ffi_probe.so"))
        os.symlink(target.replace("{PROBE}", os.environ.get("MSV_PROBE", "/verif/.cache/target-ffi/debug/libmsv_ffi_probe.so")), p)
    for rel, mode in (modes or {}).items():
        os.chmod(os.path.join(root, rel), mode)
