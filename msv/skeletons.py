"""Enumerated control-flow skeletons shared by C01 (run against the model) and C09 (structural analysis):
outer loop kind x up to `depth` nested wrapper blocks x exit statement x guard x placement."""
import itertools
from .gen import I

LOOPS = ["while", "from_to", "from_through", "from_step", "from_anon", "from_varstep", "from_exprstep", "from_collide", "from_collide_outer"]
WRAPS = ["if", "else", "elif", "while1", "from1"]
EXITS = ["break", "continue", "return", "none"]


def P(s):
    return ("print", ("lit", "str", s))


def V(n):
    return ("var", n)


def wrap(kind, body, lvl, ivar):
    """wrap `body` (list of stmts) in one block of the given kind; conditions depend on the loop counter"""
    tag = "w%d" % lvl
    if kind == "if":
        return [("if", ("bin", ">=", V(ivar), I(0)), [P(tag + ":if")] + body, None)]
    if kind == "else":
        return [("if", ("bin", "<", V(ivar), I(0)), [P(tag + ":no")], [P(tag + ":else")] + body)]
    if kind == "elif":
        return [("if", ("bin", "<", V(ivar), I(0)), [P(tag + ":no")],
                 ("if", ("bin", ">=", V(ivar), I(0)), [P(tag + ":elif")] + body, [P(tag + ":no2")]))]
    if kind == "while1":
        u = "u%d" % lvl
        return [("decl", u, None, I(0), ()),
                ("while", ("bin", "<", V(u), I(2)), [("decl", u, None, ("bin", "+", V(u), I(1)), ()), P(tag + ":while")] + body)]
    if kind == "from1":
        return [("from", I(0), I(2), False, None, "j%d" % lvl, [P(tag + ":from")] + body)]
    raise ValueError(kind)


def skeleton(loop, wraps, exit_kind, guarded, in_fn):
    """-> list of statements (a whole program) or None when the combination is not expressible"""
    if exit_kind == "return" and not in_fn:
        return None
    ivar = "i"
    if exit_kind == "none":
        inner = [P("body")]
    else:
        ex = {"break": ("break",), "continue": ("continue",), "return": ("return", ("bin", "+", V(ivar), I(100)))}[exit_kind]
        if guarded:
            inner = [P("pre"), ("if", ("bin", "==", V(ivar), I(2 if loop in ("from_step", "from_varstep", "from_exprstep") else 1)), [P("exit"), ex], None), P("post")]
        else:
            inner = [P("pre"), ex]
    body = inner
    for lvl, wk in reversed(list(enumerate(wraps))):
        body = wrap(wk, body, lvl, ivar) + [P("after-w%d" % lvl)]
    body = [("print", ("bin", "+", ("lit", "str", "iter:"), V(ivar)))] + body + [P("end-iter")]
    pre = []
    if loop == "while":
        pre = [("decl", "c", None, I(-1), ()), ("decl", ivar, None, I(-1), ())]
        lp = ("while", ("bin", "<", V("c"), I(3)),
              [("decl", "c", None, ("bin", "+", V("c"), I(1)), ()), ("decl", ivar, None, V("c"), ())] + body)
    elif loop == "from_to":
        lp = ("from", I(0), I(4), False, None, ivar, body)
    elif loop == "from_through":
        lp = ("from", I(0), I(3), True, None, ivar, body)
    elif loop == "from_step":
        lp = ("from", I(0), I(7), False, I(2), ivar, body)
    elif loop == "from_varstep":
        pre = [("decl", "st", None, I(2), ())]
        lp = ("from", I(0), I(6), True, V("st"), ivar, body)
    elif loop == "from_exprstep":
        # a step that is a compound expression: `continue` must land on its first instruction
        pre = [("decl", "st", None, I(1), ())]
        lp = ("from", I(0), I(6), True, ("bin", "+", V("st"), I(1)), ivar, body)
    elif loop == "from_anon":
        pre = [("decl", ivar, None, I(-1), ())]
        lp = ("from", I(0), I(4), False, None, None, [("decl", ivar, None, ("bin", "+", V(ivar), I(1)), ())] + body)
    elif loop == "from_collide":
        pre = [("decl", ivar, None, I(50), ())]
        lp = ("from", I(0), I(4), False, None, ivar, body)
    elif loop == "from_collide_outer":
        # the counter names a variable declared in an ENCLOSING block of the same function
        pre = [("decl", ivar, None, I(50), ())]
        lp = ("if", ("bin", ">", V(ivar), I(0)), [("from", I(0), I(4), False, None, ivar, body), ("print", ("bin", "+", ("lit", "str", "inner i="), V(ivar)))], None)
    else:
        raise ValueError(loop)
    core = pre + [lp, P("after-loop")]
    if loop in ("from_collide", "from_collide_outer", "while", "from_anon"):
        core.append(("print", ("bin", "+", ("lit", "str", "i="), V(ivar))))
    if in_fn:
        fn = ("fn", [("k", "int")], "int", [P("enter")] + core + [("return", ("bin", "-", V("k"), I(1)))])
        return [P("@start"), ("decl", "f", None, fn, ()), ("print", ("call", V("f"), [I(7)])), P("@end")]
    return [P("@start")] + core + [P("@end")]


def all_skeletons(depth):
    """yields (descriptor, stmts)"""
    for loop in LOOPS:
        for d in range(0, depth + 1):
            for wraps in itertools.product(WRAPS, repeat=d):
                for ex in EXITS:
                    for guarded in ((True, False) if ex != "none" else (True,)):
                        for in_fn in (False, True):
                            s = skeleton(loop, list(wraps), ex, guarded, in_fn)
                            if s is not None:
                                yield {"loop": loop, "wraps": list(wraps), "exit": ex, "guarded": guarded, "in_fn": in_fn}, s
