"""Reference interpreter for MiniMS: an independent, naive tree-walking implementation of the language
semantics the properties state (lexical scoping, cells, objects with identity, checked arithmetic)."""
from . import num
from .num import Num, Fail as NumFail


class MSFail(Exception):
    """A dynamic failure the language defines."""
    def __init__(self, kind, node=None, detail=""):
        Exception.__init__(self, kind)
        self.kind = kind          # assert | nil | index | key | zero-divisor | overflow | conversion | range
        self.node = node
        self.detail = detail
        self.chain = None         # labels of active functions innermost first (filled by the interpreter)


class OutOfFuel(Exception):
    pass


class _Break(Exception):
    pass


class _Continue(Exception):
    pass


class _Return(Exception):
    def __init__(self, v):
        self.v = v


class Cell:
    __slots__ = ("v",)

    def __init__(self, v):
        self.v = v


class MList:
    __slots__ = ("items",)

    def __init__(self, items):
        self.items = items


class MMap:
    __slots__ = ("d",)

    def __init__(self, d):
        self.d = d


class MObj:
    __slots__ = ("cls", "fields")

    def __init__(self, cls):
        self.cls = cls
        self.fields = {}


class MFunc:
    __slots__ = ("params", "ret", "body", "env", "label", "self_obj", "free")

    def __init__(self, params, ret, body, env, label=None, self_obj=None):
        self.params, self.ret, self.body, self.env, self.label, self.self_obj = params, ret, body, env, label, self_obj
        self.free = None


class Env:
    """lexical environment: innermost-last list of scope dicts of one function activation + the env the
    function value was created in."""
    __slots__ = ("scopes", "outer", "label")

    def __init__(self, outer, label):
        self.scopes = [{}]
        self.outer = outer
        self.label = label

    def snapshot(self):
        """the environment a function value closes over: the variables (cells, shared by reference) that exist at the moment
        the function is created - a name declared in the same scope LATER is not visible to it (the compiler resolves a name
        to the nearest declaration that precedes the use)"""
        e = Env(self.outer, self.label)
        e.scopes = [dict(sc) for sc in self.scopes]
        return e

    def find_local(self, name):
        for s in reversed(self.scopes):
            if name in s:
                return s[name]
        return None

    def find(self, name):
        e = self
        while e is not None:
            c = e.find_local(name)
            if c is not None:
                return c
            e = e.outer
        return None

    def find_outer(self, name):
        return self.outer.find(name) if self.outer is not None else None


def show(v, depth=0):
    """text `print` produces"""
    if v is None:
        return "nil"
    if v is True:
        return "true"
    if v is False:
        return "false"
    if isinstance(v, Num):
        return num.fmt(v)
    if isinstance(v, str):
        return v if depth == 0 else "\"" + v + "\""
    if isinstance(v, MList):
        return "[" + ", ".join(show(x, depth + 1) for x in v.items) + "]"
    raise ValueError("unprintable %r" % (v,))


def values_equal(a, b):
    if a is None or b is None:
        return a is None and b is None
    if isinstance(a, Num) and isinstance(b, Num):
        return num.compare("==", a, b)
    if isinstance(a, MList) and isinstance(b, MList):
        return len(a.items) == len(b.items) and all(values_equal(x, y) for x, y in zip(a.items, b.items))
    if type(a) is not type(b):
        raise ValueError("incomparable %r %r" % (a, b))
    return a == b


class Interp:
    def __init__(self, fuel=200000, file_label="main.mmm"):
        self.out = []
        self.fuel = fuel
        self.chain = []           # active function labels, outermost first
        self.classes = {}
        self.class_env = {}
        self.file_label = file_label
        self.fn_counter = 0
        self.events = []

    # ---- entry -------------------------------------------------------------------------------
    def run(self, stmts):
        """-> (stdout text, None | MSFail)"""
        env = Env(None, "__module__")
        self.chain = ["__module__"]
        try:
            self.block_in(stmts, env, new_scope=False)
        except MSFail as f:
            f.chain = list(reversed(self.chain))
            return "".join(self.out), f
        except (_Break, _Continue, _Return):
            raise ValueError("control flow escaped the module")
        return "".join(self.out), None

    def tick(self):
        self.fuel -= 1
        if self.fuel < 0:
            raise OutOfFuel()

    # ---- statements --------------------------------------------------------------------------
    def block_in(self, stmts, env, new_scope=True, preset=None):
        if new_scope:
            env.scopes.append(dict(preset) if preset else {})
        try:
            for s in stmts:
                self.stmt(s, env)
        finally:
            if new_scope:
                env.scopes.pop()

    def stmt(self, s, env):
        self.tick()
        k = s[0]
        if k == "decl":
            v = self.ev(s[3], env)
            flags = s[4] if len(s) > 4 and s[4] else ()
            if "modify" in flags:
                c = env.find_outer(s[1])
                if c is None:
                    raise ValueError("modify of unknown " + s[1])
                c.v = v
            else:
                c = env.find_local(s[1])
                if c is not None:
                    c.v = v
                else:
                    env.scopes[-1][s[1]] = Cell(v)
        elif k == "print":
            self.out.append(show(self.ev(s[1], env)) + "\n")
        elif k == "assert":
            if self.ev(s[1], env) is not True:
                raise MSFail("assert", s)
        elif k == "if":
            cur = s
            while True:
                if self.ev(cur[1], env) is True:
                    self.block_in(cur[2], env)
                    break
                e = cur[3]
                if e is None:
                    break
                if isinstance(e, tuple) and e and e[0] == "if":
                    cur = e
                    continue
                self.block_in(e, env)
                break
        elif k == "while":
            while self.ev(s[1], env) is True:
                self.tick()
                try:
                    self.block_in(s[2], env)
                except _Break:
                    break
                except _Continue:
                    continue
        elif k == "from":
            self.from_loop(s, env)
        elif k == "break":
            raise _Break()
        elif k == "continue":
            raise _Continue()
        elif k == "return":
            raise _Return(self.ev(s[1], env) if s[1] is not None else None)
        elif k == "expr":
            self.ev(s[1], env)
        elif k == "opassign":
            self.opassign(s, env)
        elif k == "seti":
            base = self.ev(s[1], env)
            idx = self.ev(s[2], env)
            v = self.ev(s[3], env)
            self.store_index(base, idx, v, s)
        elif k == "setf":
            base = self.ev(s[1], env)
            v = self.ev(s[3], env)
            if base is None:
                raise MSFail("nil", s)
            base.fields[s[2]].v = v
        elif k == "class":
            self.classes[s[1]] = s
            snap = env.snapshot()
            self.class_env[s[1]] = snap
            cell = Cell(("class", s[1], snap))
            env.scopes[-1][s[1]] = cell
            snap.scopes[-1][s[1]] = cell          # the class body sees its own name
        elif k == "rawstmt":
            pass
        else:
            raise ValueError(s)

    def from_loop(self, s, env):
        _, start, end, inclusive, step, name, body = s
        v = self.ev(start, env)
        existing = env.find_local(name) if name is not None else None
        if existing is not None:
            cell = existing          # colliding counter: the visible variable is reused
            cell.v = v
            scoped = False
        else:
            cell = Cell(v)
            scoped = True
        endv = self.ev(end, env)
        while True:
            self.tick()
            if not num.compare("<=" if inclusive else "<", cell.v, endv):
                break
            preset = {name: cell} if (scoped and name is not None) else None
            try:
                self.block_in(body, env, preset=preset)
            except _Break:
                break
            except _Continue:
                pass
            stepv = self.ev(step, env) if step is not None else Num("int", 1)
            cell.v = self.arith("+", cell.v, stepv, s)

    def opassign(self, s, env):
        target, op, e = s[1], s[2][0], s[3]
        if target[0] == "var":
            c = env.find(target[1])
            rhs = self.ev(e, env)
            c.v = self.binop(op, c.v, rhs, s)
        elif target[0] == "index":
            base = self.ev(target[1], env)
            idx = self.ev(target[2], env)
            rhs = self.ev(e, env)
            cur = self.load_index(base, idx, s)
            self.store_index(base, idx, self.binop(op, cur, rhs, s), s)
        elif target[0] == "field":
            base = self.ev(target[1], env)
            rhs = self.ev(e, env)
            if base is None:
                raise MSFail("nil", s)
            c = base.fields[target[2]]
            c.v = self.binop(op, c.v, rhs, s)
        else:
            raise ValueError(s)

    # ---- expressions -------------------------------------------------------------------------
    def arith(self, op, a, b, node):
        try:
            return num.arith(op, a, b)
        except NumFail as f:
            raise MSFail("zero-divisor" if f.reason == "zero-divisor" else "overflow", node, f.reason)

    def binop(self, op, a, b, node):
        if op in ("+", "-", "*", "/", "%"):
            if isinstance(a, Num) and isinstance(b, Num):
                return self.arith(op, a, b, node)
            if op == "+" and (isinstance(a, str) or isinstance(b, str)):
                r = show(a) + show(b)
                if len(r) > 20000:
                    raise OutOfFuel()      # runaway string growth: the case is discarded, not judged
                return r
            if op == "+" and isinstance(a, MList) and isinstance(b, MList):
                return MList(list(a.items) + list(b.items))
            if op == "*" and isinstance(b, str) and isinstance(a, Num):
                a, b = b, a            # `n * "ab"` repeats like `"ab" * n` (the OPERANDS were evaluated left to right by the caller)
            if op == "*" and isinstance(a, str) and isinstance(b, Num):
                if b.v < 0:
                    raise MSFail("conversion", node)
                if len(a) * b.v > 20000:
                    raise OutOfFuel()
                return a * b.v
            raise ValueError("bad operands for %s: %r %r" % (op, a, b))
        if op in ("<", "<=", ">", ">="):
            return num.compare(op, a, b)
        if op == "==":
            return values_equal(a, b)
        if op == "!=":
            return not values_equal(a, b)
        if op == "^":
            return a != b
        if op in ("&", "|", "xor", "<<", ">>"):
            try:
                return num.bitop(op, a, b)
            except NumFail as f:
                raise MSFail("overflow", node, f.reason)
        if op == "is":
            if isinstance(a, (MObj, MList, MMap, MFunc)) or isinstance(b, (MObj, MList, MMap, MFunc)):
                return a is b
            return values_equal(a, b)
        raise ValueError(op)

    def load_index(self, base, idx, node):
        if base is None:
            raise MSFail("nil", node)
        if isinstance(base, MList):
            if not (0 <= idx.v < len(base.items)):
                raise MSFail("index", node)
            return base.items[idx.v]
        if isinstance(base, MMap):
            kv = base.d.get(key_of(idx))
            return kv[1] if kv is not None else None
        if isinstance(base, str):
            if not (0 <= idx.v < len(base)):
                raise MSFail("index", node)
            return base[idx.v]
        raise ValueError(base)

    def store_index(self, base, idx, v, node):
        if isinstance(base, MList):
            if not (0 <= idx.v < len(base.items)):
                raise MSFail("index", node)
            base.items[idx.v] = v
        elif isinstance(base, MMap):
            base.d[key_of(idx)] = (idx, v)
        else:
            raise ValueError(base)

    def ev(self, e, env):
        self.tick()
        k = e[0]
        if k == "lit":
            if e[1] in ("int", "bigint", "float", "byte"):
                return Num(e[1], float(e[2]) if e[1] == "float" else e[2])
            return e[2]
        if k == "nil":
            return None
        if k == "var":
            c = env.find(e[1])
            if c is None:
                raise ValueError("unbound " + e[1])
            return c.v
        if k == "bin":
            op = e[1]
            if op == "&&":
                return self.ev(e[2], env) is True and self.ev(e[3], env) is True
            if op == "||":
                return self.ev(e[2], env) is True or self.ev(e[3], env) is True
            a = self.ev(e[2], env)
            b = self.ev(e[3], env)
            return self.binop(op, a, b, e)
        if k == "paren":
            return self.ev(e[1], env)
        if k == "neg":
            v = self.ev(e[1], env)
            try:
                return num.neg(v)
            except NumFail:
                raise MSFail("overflow", e)
        if k == "not":
            return self.ev(e[1], env) is not True
        if k == "call":
            f = self.ev(e[1], env)
            argv = [self.ev(a, env) for a in e[2]]
            return self.call(f, argv, e)
        if k == "selfcall":
            argv = [self.ev(a, env) for a in e[1]]
            f = env.find("%self_fn").v
            return self.call(f, argv, e)
        if k == "new":
            argv = [self.ev(a, env) for a in e[2]]
            cname = e[1]
            if cname == "Self":
                cname = env.find("self").v.cls
            return self.construct(cname, argv, env, e)
        if k == "mcall":
            r = self.ev(e[1], env)
            argv = [self.ev(a, env) for a in e[3]]
            return self.method(r, e[2], argv, e)
        if k == "index":
            base = self.ev(e[1], env)
            idx = self.ev(e[2], env)
            return self.load_index(base, idx, e)
        if k == "field":
            base = self.ev(e[1], env)
            if base is None:
                raise MSFail("nil", e)
            return base.fields[e[2]].v
        if k == "list":
            return MList([self.ev(x, env) for x in e[1]])
        if k == "map":
            m = MMap({})
            for a, b in e[3]:
                kv = self.ev(a, env)
                vv = self.ev(b, env)
                m.d[key_of(kv)] = (kv, vv)
            return m
        if k == "get":
            v = self.ev(e[1], env)
            if v is None:
                raise MSFail("nil", e)
            return v
        if k == "or":
            v = self.ev(e[1], env)
            if v is not None:
                return v
            return self.ev(e[2], env)
        if k in ("unwrap", "unwrap_stmt"):
            v = self.ev(e[2], env)
            c = env.find(e[1])
            if c is None:
                env.scopes[-1][e[1]] = Cell(v)
            else:
                c.v = v
            return v is not None
        if k == "fn":
            self.fn_counter += 1
            f = MFunc(e[1], e[2], e[3], env.snapshot(), label=None)
            f.free = free_vars(e)
            return f
        raise ValueError(e)

    def call(self, f, argv, node):
        if not isinstance(f, MFunc):
            raise ValueError("call of non-function %r" % (f,))
        fe = Env(f.env, f.label)
        for (pn, _), a in zip(f.params, argv):
            fe.scopes[-1][pn] = Cell(a)
        fe.scopes[-1]["%self_fn"] = Cell(f)
        if f.self_obj is not None:
            fe.scopes[-1]["self"] = Cell(f.self_obj)
        self.chain.append(f.label if f.label else "?")
        if len(self.chain) > 200:
            raise OutOfFuel()
        try:
            self.block_in(f.body, fe, new_scope=False)
            r = None
        except _Return as ret:
            r = ret.v
        self.chain.pop()
        return r

    def construct(self, cname, argv, env, node):
        cell = env.find(cname)
        _, _, cenv = cell.v
        cls = self.classes[cname]
        obj = MObj(cname)
        for fname, _ in cls[2]:
            obj.fields[fname] = Cell(None)
        if cls[3] is not None:
            fe = Env(cenv, "%s::$constructor" % cname)
            fe.scopes[-1]["self"] = Cell(obj)
            for (pn, _), a in zip(cls[3], argv):
                fe.scopes[-1][pn] = Cell(a)
            self.chain.append(fe.label)
            try:
                self.block_in(cls[4], fe, new_scope=False)
            except _Return:
                pass
            self.chain.pop()
        return obj

    def call_method(self, obj, name, argv, node):
        cls = self.classes[obj.cls]
        for mname, params, ret, body in cls[5]:
            if mname == name:
                break
        else:
            raise ValueError("no method %s on %s" % (name, obj.cls))
        cenv = self.class_env[obj.cls]
        fe = Env(cenv, "%s::%s" % (obj.cls, name))
        fe.scopes[-1]["self"] = Cell(obj)
        for (pn, _), a in zip(params, argv):
            fe.scopes[-1][pn] = Cell(a)
        self.chain.append(fe.label)
        if len(self.chain) > 200:
            raise OutOfFuel()
        try:
            self.block_in(body, fe, new_scope=False)
            r = None
        except _Return as ret_:
            r = ret_.v
        self.chain.pop()
        return r

    def method(self, r, name, argv, node):
        from . import builtins_model
        return builtins_model.method(self, r, name, argv, node)


def free_vars(fn):
    """names a function literal uses while it has not (yet) bound them itself (params, locals declared earlier, loop
    counters), transitively through nested function literals.  `x = x + 1` reads the OUTER x before creating the local."""
    bound = set(n for n, _ in fn[1])
    free = set()

    def use(name):
        if name not in bound:
            free.add(name)

    def ex(e):
        k = e[0]
        if k == "var":
            use(e[1])
        elif k in ("lit", "nil", "raw"):
            pass
        elif k == "bin":
            ex(e[2]); ex(e[3])
        elif k in ("neg", "not", "get", "paren"):
            ex(e[1])
        elif k == "call":
            ex(e[1])
            for a in e[2]:
                ex(a)
        elif k in ("selfcall",):
            for a in e[1]:
                ex(a)
        elif k == "new":
            use(e[1])
            for a in e[2]:
                ex(a)
        elif k == "mcall":
            ex(e[1])
            for a in e[3]:
                ex(a)
        elif k == "index":
            ex(e[1]); ex(e[2])
        elif k == "field":
            ex(e[1])
        elif k == "list":
            for a in e[1]:
                ex(a)
        elif k == "map":
            for a, b in e[3]:
                ex(a); ex(b)
        elif k == "or":
            ex(e[1]); ex(e[2])
        elif k in ("unwrap", "unwrap_stmt"):
            use(e[1]); ex(e[2])
        elif k == "fn":
            for n in free_vars(e):
                use(n)
        else:
            raise ValueError(e)

    def block(stmts, extra=()):
        """names declared inside a block are gone when it ends: what follows means the outer variable again"""
        nonlocal bound
        saved = set(bound)
        for n in extra:
            bound.add(n)
        for x in stmts:
            st(x)
        bound = saved

    def st(s):
        k = s[0]
        if k == "decl":
            ex(s[3])
            fl = s[4] if len(s) > 4 and s[4] else ()
            if "modify" in fl:
                # `modify` addresses the variable of an enclosing scope whatever this function has bound under that name
                # (a parameter, an earlier local): the function captures it
                free.add(s[1])
            else:
                bound.add(s[1])
        elif k in ("print", "assert", "expr"):
            ex(s[1])
        elif k == "return":
            if s[1] is not None:
                ex(s[1])
        elif k == "if":
            ex(s[1])
            block(s[2])
            e = s[3]
            if isinstance(e, tuple) and e and e[0] == "if":
                st(e)
            elif e:
                block(e)
        elif k == "while":
            ex(s[1])
            block(s[2])
        elif k == "from":
            ex(s[1]); ex(s[2])
            if s[4] is not None:
                ex(s[4])
            block(s[6], [s[5]] if s[5] is not None else [])
        elif k == "opassign":
            ex(s[1]); ex(s[3])
        elif k == "seti":
            ex(s[1]); ex(s[2]); ex(s[3])
        elif k == "setf":
            ex(s[1]); ex(s[3])
        elif k in ("break", "continue", "rawstmt", "class"):
            pass
        else:
            raise ValueError(s)

    for x in fn[3]:
        st(x)
    return free - {"self"}


def key_of(v):
    if isinstance(v, Num):
        return ("n", v.k, v.v)
    return ("v", v)
