"""Type-directed generation helpers on top of a Hypothesis `draw` function.  Everything random goes
through `draw`, so Hypothesis can shrink and replay."""
from hypothesis import strategies as st


class G:
    def __init__(self, draw):
        self.draw = draw
        self.n = 0
        self.labels = set()
        self.budget = 80

    def int(self, lo, hi):
        return self.draw(st.integers(lo, hi))

    def choice(self, items):
        items = list(items)
        return items[self.draw(st.integers(0, len(items) - 1))]

    def weighted(self, pairs):
        """pairs = [(weight, item)]; earlier items are 'simpler' (shrinks toward the first)."""
        pairs = [(w, x) for w, x in pairs if w > 0]
        total = sum(w for w, _ in pairs)
        r = self.draw(st.integers(0, total - 1))
        for w, x in pairs:
            if r < w:
                return x
            r -= w
        return pairs[-1][1]

    def chance(self, percent):
        return self.draw(st.integers(0, 99)) >= 100 - percent

    def fresh(self, prefix="v"):
        self.n += 1
        return "%s%d" % (prefix, self.n)

    def label(self, l):
        self.labels.add(l)


class Scope:
    """static environment used while generating: variables visible at this point."""
    def __init__(self):
        self.frames = [[{}]]      # list of functions, each a list of block dicts name -> type
        self.funcs = {}           # name -> (param types, ret type)
        self.protected = set()    # names that must not be assigned (loop counters, fuel)

    def push_block(self):
        self.frames[-1].append({})

    def pop_block(self):
        self.frames[-1].pop()

    def push_fn(self):
        self.frames.append([{}])

    def pop_fn(self):
        self.frames.pop()

    def declare(self, name, t):
        self.frames[-1][-1][name] = t

    def visible(self, t=None):
        """all readable variables (any function level) of type t"""
        out = []
        for fn in self.frames:
            for b in fn:
                for n, ty in b.items():
                    if t is None or ty == t:
                        out.append(n)
        return out

    def assignable(self, t):
        """variables of the *current* function of type t that may be re-assigned"""
        out = []
        for b in self.frames[-1]:
            for n, ty in b.items():
                if ty == t and n not in self.protected:
                    out.append(n)
        return out

    def local(self, t):
        """variables of the current function (any block) of type t"""
        out = []
        for b in self.frames[-1]:
            out += [n for n, ty in b.items() if ty == t]
        return out

    def in_current_block(self, t):
        return [n for n, ty in self.frames[-1][-1].items() if ty == t and n not in self.protected]

    def in_outer_blocks(self, t):
        out = []
        for b in self.frames[-1][:-1]:
            out += [n for n, ty in b.items() if ty == t and n not in self.protected]
        return out


def I(v):
    return ("lit", "int", v)


def gen_int(g, sc, depth):
    ch = g.weighted([(3, "lit"), (4 if sc.visible("int") else 0, "var"), (3 if depth > 0 else 0, "arith"),
                     (1 if depth > 0 else 0, "divmod"), (2 if depth > 0 and int_funcs(sc) else 0, "call"),
                     (1 if depth > 0 and sc.visible(("list", "int")) else 0, "index"), (1 if depth > 0 and sc.visible("int") else 0, "neg")])
    if ch == "lit":
        return I(g.int(-9, 20))
    if ch == "var":
        return ("var", g.choice(sc.visible("int")))
    if ch == "arith":
        return ("bin", g.choice(["+", "-", "*"]), gen_int(g, sc, depth - 1), gen_int(g, sc, depth - 1))
    if ch == "divmod":
        g.label("divmod")
        # a risky divisor is always a run-time variable: literal-only divisions are folded at compile time (C06)
        d = ("var", g.choice(sc.visible("int"))) if (sc.visible("int") and g.chance(30)) else I(g.int(1, 7))
        return ("bin", g.choice(["/", "%"]), gen_int(g, sc, depth - 1), d)
    if ch == "call":
        return gen_call(g, sc, depth, "int")
    if ch == "index":
        g.label("list-index")
        l = g.choice(sc.visible(("list", "int")))
        # (the compiler refuses a captured variable as a list index, so only locals are used)
        idx = ("var", g.choice(sc.local("int"))) if (sc.local("int") and g.chance(25)) else I(g.int(0, 2))
        return ("index", ("var", l), idx)
    # negation of literals is constant folding (C06's business); here only run-time operands
    return ("neg", ("var", g.choice(sc.visible("int"))))


def int_funcs(sc, ret="int"):
    return [n for n, (ps, r) in sc.funcs.items() if r == ret]


def gen_call(g, sc, depth, ret):
    name = g.choice(int_funcs(sc, ret))
    ps, _ = sc.funcs[name]
    args = []
    for i, p in enumerate(ps):
        if i == 0 and name.startswith("rec"):
            args.append(I(g.int(0, 3)))
        else:
            args.append(gen_expr(g, sc, p, max(0, depth - 1)))
    g.label("call")
    return ("call", ("var", name), args)


def gen_bool(g, sc, depth):
    ch = g.weighted([(2, "lit"), (3 if sc.visible("bool") else 0, "var"), (5, "cmp"), (2 if depth > 0 else 0, "logic"),
                     (1 if depth > 0 else 0, "not"), (1 if depth > 0 else 0, "streq"),
                     (1 if depth > 0 and int_funcs(sc, "bool") else 0, "call")])
    if ch == "lit":
        return ("lit", "bool", g.chance(50))
    if ch == "var":
        return ("var", g.choice(sc.visible("bool")))
    if ch == "cmp":
        return ("bin", g.choice(["<", "<=", ">", ">=", "==", "!="]), gen_int(g, sc, max(0, depth - 1)), gen_int(g, sc, max(0, depth - 1)))
    if ch == "logic":
        g.label("logic")
        return ("bin", g.choice(["&&", "||"]), gen_bool(g, sc, depth - 1), gen_bool(g, sc, depth - 1))
    if ch == "not":
        return ("not", gen_bool(g, sc, depth - 1))
    if ch == "call":
        return gen_call(g, sc, depth, "bool")
    return ("bin", g.choice(["==", "!="]), gen_str(g, sc, depth - 1), gen_str(g, sc, depth - 1))


WORDS = ["", "a", "b", "ab", "x y", "Z", "q1"]


def gen_str(g, sc, depth):
    ch = g.weighted([(3, "lit"), (3 if sc.visible("str") else 0, "var"), (3 if depth > 0 else 0, "cat"),
                     (1 if depth > 0 and int_funcs(sc, "str") else 0, "call")])
    if ch == "lit":
        return ("lit", "str", g.choice(WORDS))
    if ch == "var":
        return ("var", g.choice(sc.visible("str")))
    if ch == "call":
        return gen_call(g, sc, depth, "str")
    other = g.weighted([(3, "str"), (2, "int"), (1, "bool")])
    l = gen_str(g, sc, depth - 1)
    r = gen_expr(g, sc, other, depth - 1)
    if other != "str" and g.chance(30):
        return ("bin", "+", r, l)
    return ("bin", "+", l, r)


def gen_expr(g, sc, t, depth):
    if t == "int":
        return gen_int(g, sc, depth)
    if t == "bool":
        return gen_bool(g, sc, depth)
    if t == "str":
        return gen_str(g, sc, depth)
    if t == ("list", "int"):
        vs = sc.visible(t)
        if vs and g.chance(50):
            return ("var", g.choice(vs))
        return ("list", [gen_int(g, sc, 0) for _ in range(g.int(1, 4))])
    raise ValueError(t)
