"""C11 — modules initialise exactly once, in import order, and share one instance."""
import itertools, os
from hypothesis import strategies as st
from ..engine import CaseResult, fail
from .. import scenario
from ..gen import G

ID = "C11"
LEVEL = "exploration"
RULE = ("cases are import graphs (DAGs) over up to 4 (quick) / 5 (thorough) modules with entry m0: every edge is `import m`, "
        "`import a, b from m`, the type-only `import type T from m` or the mixed `import type T, a, b from m`, each import statement sits at a chosen position among the importer's side-effecting top-level "
        "statements and is followed by a call that bumps the imported module's counter (or, for a type-only import, a declaration that uses the type); modules live flat, partly in a "
        "sub-directory, in alternating directories that reach each other through `../`, each in a directory of its own under a file name shared with other modules and with the entry (`d1/main.ms`, `d2/u.ms`, `d3/u.ms`), or flat with a same-named DIRECTORY next to every module file (`m1.ms` + `m1/part_1.ms`); paths optionally spelled with `./`; every module exports a bump function, a getter, a list and a scalar "
        "and keeps one private name; an EDIT / REBUILD cycle: the project is built (`run` + `compile` + `execute`, or `compile` + `execute` alone), one module - each in turn - is edited (new first trace line, counter starts at 50; written with a modification time later than every file next to it) and the project is built again: the second build must behave like a first build of the edited project. Enumerated: all DAGs over <= 3 modules x all four import forms per edge x 2 placements; random: "
        "Hypothesis graphs. Oracle: a depth-first simulation (each module once, at its first executed import, completed before "
        "the importer continues; one counter per module shared by all importers) prescribes the exact trace, checked under `run` "
        "and under `compile` + `execute`; negative variants (use of a private name, assignment through the module object) must be "
        "rejected at compile time; three programs in which a class of an imported module refers to itself (`Self(..)`) while an importer owns a class or variable of the same name. Non-trivial = a module imported by >= 2 others or imported in both forms; distinct by graph")
ASSUMPTIONS = ["assignment to a name imported with `import a from m` creates a local shadow (documented by the repository's tests), so only `m.a = v` is used as the negative write"]


def mod_path(k, layout):
    """path of module k relative to the entry's directory"""
    if k == 0:
        return "main.ms"
    if layout == "twin":
        # the SAME file name in different directories (one of them the entry's own name): different modules all the same
        return "d1/main.ms" if k == 1 else "d%d/u.ms" % k
    if layout == "sub" and k >= 2:
        return "lib/m%d.ms" % k
    if layout == "alt" and k % 2 == 1:
        return "lib/m%d.ms" % k          # odd modules in lib/: they reach the even ones through `../`
    return "m%d.ms" % k


def stem(k, layout):
    """the name `import <path>` binds module k to"""
    return os.path.basename(mod_path(k, layout))[:-3]


def twin_edges(edges):
    """in the twin layout several modules share a stem, and an importer can bind a stem only once (a second `import d3/u` is a
    diagnostic): the first module an importer takes in module form keeps that form, other modules are taken by names"""
    out, bound = [], {}
    for (i, j, form, slot, dot) in sorted(edges, key=lambda e: (e[0], e[3], e[1])):
        if form == "module" and bound.setdefault((i, "main" if j == 1 else "u"), j) != j:
            if any(e[0] == i and e[1] == j and e[2] in ("names", "mixed") for e in list(edges) + out):
                continue                 # the importer takes these names already: importing a name twice is a diagnostic too
            form = "names"
        out.append((i, j, form, slot, dot))
    return out


def import_path(src, dst, layout, dot):
    """how module src spells the path of module dst (relative to src's own directory)"""
    sd = os.path.dirname(mod_path(src, layout))
    dp = mod_path(dst, layout)[:-3]
    rel = os.path.relpath(dp, sd or ".")
    if rel.startswith(".."):
        return rel
    return ("./" + rel) if dot else rel


def build(case):
    """case = {"n", "edges": [(i, j, form, slot, dot)], "layout"} -> (files, expected trace lines)"""
    n, layout = case["n"], case["layout"]
    all_edges = twin_edges(case["edges"]) if layout == "twin" else case["edges"]
    M = lambda k: stem(k, layout)
    # what a module exports: "full" (counter, bump, getter, list), "const" (one constant), "none" (nothing: side effects only)
    prof = {int(k): v for k, v in (case.get("profiles") or {}).items()}
    P = lambda k: prof.get(k, "full")
    infn = [list(x) for x in (case.get("infn") or [])]
    inloop = [list(x) for x in (case.get("inloop") or [])]
    # the module that was edited after the first build (None: the project as first written): its first trace line says so and its
    # counter starts at 50
    edited = case.get("edited_now")
    start = lambda k: 50 if k == edited else 0
    tag0 = lambda k: "m%d:0%s" % (k, " edited" if k == edited else "")
    by_src = {k: sorted([e for e in all_edges if e[0] == k], key=lambda e: (e[3], e[1])) for k in range(n)}
    files = {}
    for k in range(n):
        lines = []
        slots = {0: [], 1: [], 2: []}
        for (i, j, form, slot, dot) in by_src[k]:
            p = import_path(i, j, layout, dot)
            if [i, j, form] in infn and P(j) in ("full", "late"):
                # the import statement sits inside a function of the importer and runs when that function is called
                if form == "module":
                    slots[slot].append("ld_%d_%d = fn() -> int {\n\timport %s\n\treturn %s.bump_%d()\n}" % (i, j, p, M(j), j))
                else:
                    slots[slot].append("ld_%d_%dn = fn() -> int {\n\timport bump_%d, get_%d from %s\n\treturn bump_%d()\n}" % (i, j, j, j, p, j))
                slots[slot].append("print \"m%d->m%d \" + ld_%d_%d%s()" % (i, j, i, j, "" if form == "module" else "n"))
                continue
            if [i, j, form] in [x[:3] for x in inloop] and P(j) in ("full", "late") and form in ("module", "names"):
                # the import statement is a direct statement of a LOOP body that runs 0, 1 or 2 times: it executes once per pass,
                # after the statements in front of it - and not at all when the loop does not run
                k_ = [x[3] for x in inloop if x[:3] == [i, j, form]][0]
                call = "%s.bump_%d()" % (M(j), j) if form == "module" else "bump_%d()" % j
                imp = "import %s" % p if form == "module" else "import bump_%d, get_%d from %s" % (j, j, p)
                head = "from 0 to %d, lp_%d_%d {" % (k_, i, j) if (i + j) % 2 == 0 else "lw_%d_%d = 0\nwhile lw_%d_%d < %d {\n\tlw_%d_%d = lw_%d_%d + 1" % (i, j, i, j, k_, i, j, i, j)
                slots[slot].append("%s\n\tprint \"m%d pass\"\n\t%s\n\tprint \"m%d->m%d \" + %s\n}" % (head, i, imp, i, j, call))
                continue
            if P(j) not in ("full", "late"):
                slots[slot].append("import %s" % p)
                slots[slot].append("print \"m%d->m%d\"%s" % (i, j, (" + %s.tag_%d" % (M(j), j)) if P(j) == "const" else ""))
            elif form == "module":
                slots[slot].append("import %s" % p)
                slots[slot].append("print \"m%d->m%d \" + %s.bump_%d()" % (i, j, M(j), j))
            elif form == "type":
                # only a TYPE is imported: the module must be initialised by this statement all the same
                slots[slot].append("import type T_%d from %s" % (j, p))
                slots[slot].append("tv_%d_%d_%d: T_%d = %d" % (i, j, slot, j, j))
                slots[slot].append("print \"m%d->m%d type \" + tv_%d_%d_%d" % (i, j, i, j, slot))
            elif form == "mixed":
                slots[slot].append("import type T_%d, bump_%d, get_%d from %s" % (j, j, j, p))
                slots[slot].append("print \"m%d->m%d \" + bump_%d()" % (i, j, j))
            else:
                slots[slot].append("import bump_%d, get_%d from %s" % (j, j, p))
                slots[slot].append("print \"m%d->m%d \" + bump_%d()" % (i, j, j))
        lines.append("print \"%s\"" % tag0(k))
        lines += slots[0]
        if k > 0 and P(k) == "none":
            lines += ["hidden_%d = %d" % (k, 100 + k)]
        elif k > 0 and P(k) == "const":
            lines += ["hidden_%d = %d" % (k, 100 + k), "export const tag_%d: int = %d" % (k, 7 * k)]
        elif k > 0 and P(k) == "late":
            # "declare first, export at the bottom": the variable is captured by the module's closures BEFORE it is exported under
            # its own name, and the module keeps using it afterwards - one variable for the module, its closures and every importer
            lines += ["hidden_%d = %d" % (k, 100 + k),
                      "counter_%d = %d" % (k, start(k)),
                      "bump_%d = fn() -> int {\n\tmodify counter_%d = counter_%d + 1\n\treturn counter_%d\n}" % (k, k, k, k),
                      "get_%d = fn() -> int {\n\treturn counter_%d + hidden_%d - %d\n}" % (k, k, k, 100 + k),
                      "items_%d: [int...] = [%d]" % (k, k),
                      "export counter_%d: int = counter_%d" % (k, k),
                      "export bump_%d: fn() -> int = bump_%d" % (k, k),
                      "export get_%d: fn() -> int = get_%d" % (k, k),
                      "export items_%d: [int...] = items_%d" % (k, k),
                      "export type T_%d int" % k,
                      "counter_%d = counter_%d + 0" % (k, k)]
        elif k > 0:
            lines += ["hidden_%d = %d" % (k, 100 + k),
                      "export counter_%d: int = %d" % (k, start(k)),
                      "export bump_%d: fn() -> int = fn() -> int {\n\tmodify counter_%d = counter_%d + 1\n\treturn counter_%d\n}" % (k, k, k, k),
                      "export get_%d: fn() -> int = fn() -> int {\n\treturn counter_%d + hidden_%d - %d\n}" % (k, k, k, 100 + k),
                      "export items_%d: [int...] = [%d]" % (k, k),
                      "export type T_%d int" % k]
        lines.append("print \"m%d:1\"" % k)
        lines += slots[1]
        lines.append("print \"m%d:2\"" % k)
        lines += slots[2]
        if k == 0:
            for (i, j, form, slot, dot) in by_src[0]:
                if P(j) not in ("full", "late") or [i, j, form] in infn or [i, j, form] in [x[:3] for x in inloop]:
                    continue
                if form == "type":
                    continue
                if form == "module":
                    lines.append("print \"final m%d \" + %s.get_%d()" % (j, M(j), j))
                    lines.append("print %s.items_%d" % (M(j), j))
                    lines.append("print %s.counter_%d" % (M(j), j))
                else:
                    lines.append("print \"final m%d \" + get_%d()" % (j, j))
            lines.append("print \"@end\"")
        files[mod_path(k, layout)] = "\n".join(lines) + "\n"
        if layout == "facade":
            # next to every module file lies a DIRECTORY with the module's name (a facade module in front of its parts):
            # `import m1` means the file m1.ms; the directory and what it holds play no part
            files["%s/part_%d.ms" % (mod_path(k, layout)[:-3], k)] = "print \"never: part of m%d\"\n" % k
    # simulation
    out, done, counter = [], set(), {k: start(k) for k in range(n)}

    def run_module(k):
        out.append(tag0(k))
        for slot in (0, 1, 2):
            for (i, j, form, s, dot) in by_src[k]:
                if s != slot:
                    continue
                lp = [x[3] for x in inloop if x[:3] == [i, j, form]] if (P(j) in ("full", "late") and form in ("module", "names")) else []
                if lp:
                    for _ in range(lp[0]):
                        out.append("m%d pass" % i)
                        if j not in done:
                            done.add(j)
                            run_module(j)
                        counter[j] += 1
                        out.append("m%d->m%d %d" % (i, j, counter[j]))
                    continue
                if j not in done:
                    done.add(j)
                    run_module(j)
                if P(j) not in ("full", "late"):
                    out.append("m%d->m%d%s" % (i, j, str(7 * j) if P(j) == "const" else ""))
                    continue
                if form == "type":
                    out.append("m%d->m%d type %d" % (i, j, j))
                    continue
                counter[j] += 1
                out.append("m%d->m%d %d" % (i, j, counter[j]))
            if slot < 2:
                out.append("m%d:%d" % (k, slot + 1))
        if k == 0:
            for (i, j, form, s, dot) in by_src[0]:
                if P(j) not in ("full", "late") or [i, j, form] in infn or form == "type" or [i, j, form] in [x[:3] for x in inloop]:
                    continue
                out.append("final m%d %d" % (j, counter[j]))
                if form == "module":
                    out.append("[%d]" % j)
                    out.append("%d" % counter[j])
            out.append("@end")

    done.add(0)
    run_module(0)
    return files, out


def make_scenario(files, expected):
    exp = "\n".join(expected) + "\n"
    return {"files": {"p/q/r/" + k: v for k, v in files.items()}, "cwd": "p/q/r",
            "steps": [{"id": "run", "argv": ["mscript", "run", "main.ms", "-q"]},
                      {"id": "compile", "argv": ["mscript", "compile", "main.ms", "--quick"]},
                      {"id": "execute", "argv": ["mscript", "execute", "main.mmm"], "only_if_ok": "compile"}],
            "asserts": [{"kind": "stdout_eq", "step": "run", "value": exp}, {"kind": "exit", "step": "run", "in": ["ok"]},
                        {"kind": "exit", "step": "compile", "in": ["ok"]},
                        {"kind": "stdout_eq", "step": "execute", "value": exp}, {"kind": "exit", "step": "execute", "in": ["ok"]}]}


def rebuild_scenario(case):
    """build, edit ONE module, build again: the second build must behave like a first build of the edited project - every module
    once, the edited one with its new top-level code - under `run` and under `compile` + `execute`"""
    files1, exp1 = build(dict(case, edited_now=None))
    files2, exp2 = build(dict(case, edited_now=case["edit"]))
    changed = [k for k in files1 if files1[k] != files2[k]]
    sc = make_scenario(files1, exp1)
    e2 = "\n".join(exp2) + "\n"
    if case.get("first") == "compile":
        sc["steps"] = sc["steps"][1:]           # the first build is `compile` + `execute` alone
        sc["asserts"] = sc["asserts"][2:]
    for k in changed:
        sc["steps"].append({"id": "edit:" + k, "op": "write", "path": k, "content": files2[k]})
    sc["steps"] += [{"id": "run2", "argv": ["mscript", "run", "main.ms", "-q"]},
                    {"id": "compile2", "argv": ["mscript", "compile", "main.ms", "--quick"]},
                    {"id": "execute2", "argv": ["mscript", "execute", "main.mmm"], "only_if_ok": "compile2"}]
    sc["asserts"] += [{"kind": "stdout_eq", "step": "run2", "value": e2}, {"kind": "exit", "step": "run2", "in": ["ok"]},
                      {"kind": "exit", "step": "compile2", "in": ["ok"]},
                      {"kind": "stdout_eq", "step": "execute2", "value": e2}, {"kind": "exit", "step": "execute2", "in": ["ok"]}]
    return sc, files1, exp2


def negative_scenario(kind):
    lib = "hidden_1 = 5\nexport counter_1: int = 0\nexport get_1: fn() -> int = fn() -> int {\n\treturn counter_1\n}\nprint \"m1 init\"\n"
    if kind == "private-via-module":
        main = "import m1\nprint \"@start\"\nprint m1.hidden_1\n"
    elif kind == "private-via-names":
        main = "import hidden_1 from m1\nprint \"@start\"\nprint hidden_1\n"
    elif kind == "write-module-member":
        main = "import m1\nprint \"@start\"\nm1.counter_1 = 9\nprint m1.get_1()\n"
    elif kind == "write-through-module-alias":
        main = "import m1\nprint \"@start\"\nk = m1\nk.counter_1 = 9\nprint m1.get_1()\n"
    elif kind == "opassign-through-module-alias":
        main = "import m1\nprint \"@start\"\nk = m1\nk.counter_1 += 9\nprint m1.get_1()\n"
    elif kind.startswith("write-through-captured-module-alias"):
        # the module object copied into a plain variable that a FUNCTION (a closure, a method) captures: writes through it are writes
        # to the module's members all the same
        w = {"assign": "k.counter_1 = 9", "opassign": "k.counter_1 += 9", "unwrap": "k.counter_1 ?= 9"}[kind.split(":")[1]]
        where = kind.split(":")[2]
        if where == "function":
            body = "wr = fn() {\n\t%s\n}\nwr()" % w
        elif where == "nested-function":
            body = "wr = fn() {\n\tinner = fn() {\n\t\t%s\n\t}\n\tinner()\n}\nwr()" % w
        else:
            body = "class Wm {\n\tfn go(self) {\n\t\t%s\n\t}\n}\nwm = Wm()\nwm.go()" % w
        main = "import m1\nprint \"@start\"\nk = m1\n" + body + "\nprint m1.get_1()\n"
    elif kind == "wrong-type-use":
        main = "import counter_1 from m1\nprint \"@start\"\nx: str = counter_1\nprint x\n"
    elif kind == "exported-twice":
        # a name is exported once: the second export is a diagnostic of the MODULE, not a failure of its importer at run time
        lib = lib + "export counter_1: int = 7\n"
        main = "import m1\nprint \"@start\"\nprint m1.counter_1\n"
    else:
        raise ValueError(kind)
    return {"files": {"p/q/r/main.ms": main, "p/q/r/m1.ms": lib}, "cwd": "p/q/r",
            "steps": [{"id": "run", "argv": ["mscript", "run", "main.ms", "-q"]}],
            "asserts": [{"kind": "exit", "step": "run", "in": ["error"]}, {"kind": "stderr_has", "step": "run", "value": "Did not compile"},
                        {"kind": "stdout_lacks", "step": "run", "value": "@start"}, {"kind": "stdout_lacks", "step": "run", "value": "m1 init"}]}


def special_scenario(kind):
    """module instances keep their OWN names apart: a class of an imported module that refers to itself (`Self(..)`) while an importer
    - at its top level, or in a running function - has a class / variable with the same name"""
    shapes = ("print \"shapes init\"\nexport class Shape {\n\tv: int\n\tconstructor(self, v: int) {\n\t\tself.v = v\n\t}\n\tfn twin(self) -> Self {\n\t\treturn Self(self.v + 1)\n\t}\n}\n"
              "export made: int = 0\nexport make: fn(int) -> int = fn(n: int) -> int {\n\ts = Shape(n)\n\tt = s.twin()\n\tmodify made = made + 1\n\treturn t.v\n}\n")
    own = "class Shape {\n\tv: int\n\tconstructor(self, v: int) {\n\t\tself.v = v * 1000\n\t}\n\tfn twin(self) -> Self {\n\t\treturn Self(self.v)\n\t}\n}\n"
    if kind == "self-in-imported-class:importer-top-level":
        a = own + "import shapes\nprint \"a \" + shapes.make(2)\nmine = Shape(1)\nprint \"a own \" + mine.twin().v\n"
        main = "import a\nimport shapes\nprint \"main \" + shapes.make(5)\nprint shapes.made\nprint \"@end\"\n"
        exp = ["shapes init", "a 3", "a own 1000000", "main 6", "2", "@end"]
        files = {"main.ms": main, "a.ms": a, "shapes.ms": shapes}
    elif kind == "self-in-imported-class:entry-module":
        main = own + "import shapes\nprint \"main \" + shapes.make(5)\nmine = Shape(2)\nprint mine.twin().v\nprint shapes.made\nprint \"@end\"\n"
        exp = ["shapes init", "main 6", "2000000", "1", "@end"]
        files = {"main.ms": main, "shapes.ms": shapes}
    elif kind == "self-in-imported-class:from-function":
        main = "import shapes\ngo = fn() -> int {\n\tShape = 7\n\treturn shapes.make(Shape)\n}\nprint go()\nprint shapes.made\nprint \"@end\"\n"
        exp = ["shapes init", "8", "1", "@end"]
        files = {"main.ms": main, "shapes.ms": shapes}
    elif kind == "names-that-begin-with-keywords":
        # exported names that BEGIN with a word of the import syntax (`type`, `from`, `import`) are ordinary names
        lib = "print \"lib init\"\nexport typed_value: int = 7\nexport types: int = 3\nexport fromage: int = 2\nexport imported: int = 1\nexport type Tv int\nexport typeset: fn() -> int = fn() -> int {\n\treturn 5\n}\n"
        main = "import typed_value, types, fromage, imported, typeset from lib\nimport type Tv from lib\nq: Tv = typed_value + types + fromage + imported + typeset()\nprint q\nimport lib\nprint lib.typed_value\nprint \"@end\"\n"
        exp = ["lib init", "18", "7", "@end"]
        files = {"main.ms": main, "lib.ms": lib}
    elif kind == "exported-object-by-name":
        # `import box from o`: an exported variable that holds an object has its declared type (the class), is the SAME object for
        # every importer and for the exporting module, and the class imported next to it still constructs
        lib = ("print \"o init\"\nexport class Box {\n\tv: int\n\tconstructor(self, v: int) {\n\t\tself.v = v\n\t}\n}\nexport box: Box = Box(1)\n"
               "export bump: fn() -> int = fn() -> int {\n\tbox.v = box.v + 1\n\treturn box.v\n}\n")
        main = ("import box, Box, bump from o\nprint box.v\nprint bump()\nprint box.v\nb2 = Box(5)\nprint b2.v\nuse = fn(b: Box) -> int {\n\treturn b.v\n}\nprint use(box)\nimport o\nprint (o.box).v\nprint \"@end\"\n")
        exp = ["o init", "1", "2", "2", "5", "2", "2", "@end"]
        files = {"main.ms": main, "o.ms": lib}
    elif kind.startswith("local-shadow-of-imported-name:"):
        # an importer may assign to a name it imported with `import x from m`: that makes a LOCAL of the importer (the repository's
        # tests document it) - the module's variable, its functions and the other importers keep the module's value
        how = kind.split(":")[1]
        lib = ("print \"lib init\"\nexport level: int = 1\nexport current: fn() -> int = fn() -> int {\n\treturn level\n}\n"
               "export raise: fn() -> int = fn() -> int {\n\tmodify level = level + 1\n\treturn level\n}\n")
        write = {"assign": "level = level * 100", "opassign": "level *= 100", "typed": "level: int = level * 100", "in-block": "if true {\n\tlevel = level * 100\n}"}[how]
        seen = "100"          # (also from inside a block: the imported name is a variable of the importer's module scope)
        worker = ("import level, current from lib\nprint \"worker \" + level\n" + write + "\nprint \"worker local \" + level\nprint \"worker sees \" + current()\n"
                  "export report: fn() -> int = fn() -> int {\n\treturn level\n}\n")
        main = "import lib\nimport worker\nprint lib.level\nprint lib.current()\nprint lib.raise()\nprint worker.report()\nprint lib.level\nprint \"@end\"\n"
        exp = ["lib init", "worker 1", "worker local " + seen, "worker sees 1", "1", "1", "2", seen, "2", "@end"]
        files = {"main.ms": main, "lib.ms": lib, "worker.ms": worker}
    elif kind.startswith("back-edge:"):
        # a module imports, at the END of its top level, a module that imports names back from it (the repository's
        # `circular_import_workaround`): the import that arrives while the first module is still initialising finds the module
        # already entered - each top level still runs exactly once and both see one instance
        _, back_form, entry_first, extra = kind.split(":")
        registry = ("print \"registry:init\"\ncount = 0\nexport add: fn(str) -> int = fn(who: str) -> int {\n\tmodify count = count + 1\n\tprint \"registry: +\" + who\n\treturn count\n}\n"
                    "export total: fn() -> int = fn() -> int {\n\treturn count\n}\nimport plugin\nprint \"registry:ready\"\n")
        use = "import add from registry\nadd(\"plugin\")\n" if back_form == "names" else "import registry\nregistry.add(\"plugin\")\n"
        helper = "warm = fn() -> int {\n\treturn 1\n}\nwarm()\n" if extra == "after-a-call" else ""
        plugin = "print \"plugin:init\"\n" + helper + use + "export name: fn() -> str = fn() -> str {\n\treturn \"plugin\"\n}\nprint \"plugin:ready\"\n"
        if entry_first == "registry":
            main = "print \"main:start\"\nimport registry\nprint \"total \" + registry.total()\nimport plugin\nprint plugin.name()\nprint \"total \" + registry.total()\nprint \"@end\"\n"
            exp = ["main:start", "registry:init", "plugin:init", "registry: +plugin", "plugin:ready", "registry:ready", "total 1", "plugin", "total 1", "@end"]
        else:
            main = "print \"main:start\"\nimport registry\nimport add from registry\nprint \"total \" + registry.total()\nadd(\"main\")\nimport plugin\nprint plugin.name()\nprint \"total \" + registry.total()\nprint \"@end\"\n"
            exp = ["main:start", "registry:init", "plugin:init", "registry: +plugin", "plugin:ready", "registry:ready", "total 1", "registry: +main", "plugin", "total 2", "@end"]
        files = {"main.ms": main, "registry.ms": registry, "plugin.ms": plugin}
    else:
        raise ValueError(kind)
    return make_scenario(files, exp)


SPECIALS = ["local-shadow-of-imported-name:" + h for h in ("assign", "opassign", "typed", "in-block")] + ["back-edge:%s:%s:%s" % (b, e, x) for b in ("names", "module") for e in ("registry", "both-forms") for x in ("plain", "after-a-call")] + ["self-in-imported-class:importer-top-level", "self-in-imported-class:entry-module", "self-in-imported-class:from-function",
            "names-that-begin-with-keywords", "exported-object-by-name"]
NEGATIVES = ["write-through-captured-module-alias:%s:%s" % (w_, c_) for w_ in ("assign", "opassign", "unwrap") for c_ in ("function", "nested-function", "method")] + ["private-via-module", "private-via-names", "write-module-member", "write-through-module-alias", "opassign-through-module-alias", "wrong-type-use", "exported-twice"]


def describe(case):
    if "special" in case:
        return "special:" + case["special"]
    if "negative" in case:
        return "negative:" + case["negative"]
    return "n=%d layout=%s%s%s%s edges=%s" % (case["n"], case["layout"], (" edit=m%d after a first %s" % (case["edit"], case.get("first", "run"))) if case.get("edit") is not None else "", ((" infn=%s" % case["infn"]) if case.get("infn") else "") + ((" inloop=%s" % case["inloop"]) if case.get("inloop") else ""), (" profiles=%s" % sorted((case.get("profiles") or {}).items())) if case.get("profiles") else "", " ".join("%d>%d:%s@%d%s" % (i, j, f[0], s, "." if d else "") for i, j, f, s, d in case["edges"]))


def check(case):
    if "special" in case:
        sc = special_scenario(case["special"])
        res, fails, _ = scenario.execute(sc)
        r = CaseResult(nt_keys=["special:" + case["special"]], labels=["special=" + case["special"].split(":")[0]], sample={"case": case["special"]})
        if fails:
            r.failure = fail(case["special"] + ": " + "; ".join(fails)[:900], "C11:special:" + case["special"], sc, case=case)
        return r
    if "negative" in case:
        sc = negative_scenario(case["negative"])
        res, fails, _ = scenario.execute(sc)
        r = CaseResult(nt_keys=[], labels=["negative=" + case["negative"]], sample={"case": describe(case)})
        if fails:
            r.failure = fail(describe(case) + ": " + "; ".join(fails), "C11:negative:" + case["negative"], sc, case=case)
        return r
    if case.get("edit") is not None:
        sc, files, exp = rebuild_scenario(case)
    else:
        files, exp = build(case)
        sc = make_scenario(files, exp)
    res, fails, _ = scenario.execute(sc)
    indeg = {}
    forms = {}
    for i, j, f, s, d in case["edges"]:
        indeg[j] = indeg.get(j, 0) + 1
        forms.setdefault(j, set()).add(f)
    nt = any(v >= 2 for v in indeg.values()) or any(len(v) == 2 for v in forms.values())
    formset = set(f for _, _, f, _, _ in case["edges"])
    labels = ["form=" + f for f in sorted(formset)] + ["n=%d" % case["n"], "layout=" + case["layout"]] + (["diamond"] if any(v >= 2 for v in indeg.values()) else []) + \
             (["dot-spelling"] if any(d for *_, d in case["edges"]) else []) + (["import-inside-function"] if case.get("infn") else []) + (["import-inside-loop-body:passes=%s" % ",".join(sorted(set(str(x[3]) for x in case["inloop"])))] if case.get("inloop") else []) + ["exports=" + v for v in set((case.get("profiles") or {}).values())] + \
             (["rebuild-after-edit:" + ("directly-imported" if any(i == 0 and j == case["edit"] for i, j, *_ in case["edges"]) else "imported-through-others")] if case.get("edit") is not None else [])
    r = CaseResult(nt_keys=[describe(case)] if nt else [], labels=labels, sample={"case": describe(case), "main.ms": files["main.ms"], "expected": exp[:12]})
    if fails:
        feats = []
        if any(d for *_, d in case["edges"]):
            feats.append("dot-spelling")
        if case["layout"] != "flat":
            feats.append("subdir")
        where = "run" if any(f.startswith("step run") for f in fails) else "execute"
        if case.get("edit") is not None and not any(f.startswith("step run:") or f.startswith("step execute:") or f.startswith("step compile:") for f in fails):
            feats.append("rebuild-after-edit")
        r.failure = fail(describe(case) + ": " + "; ".join(fails)[:900], "C11:%s:%s" % (where, "+".join(feats) or "plain"), sc, case=case)
    return r


def all_dags(n):
    """all edge sets over modules 0..n-1 with i<j where every module j>0 has an importer"""
    pairs = [(i, j) for i in range(n) for j in range(i + 1, n)]
    for mask in range(1, 1 << len(pairs)):
        es = [p for b, p in enumerate(pairs) if mask >> b & 1]
        if all(any(j == k for _, j in es) for k in range(1, n)):
            yield es


def enumerated(tier, seed):
    cases = [{"negative": k} for k in NEGATIVES] + [{"special": k} for k in SPECIALS]
    maxn = 3 if tier == "quick" else 4
    for n in range(2, maxn + 1):
        for es in all_dags(n):
            allforms = list(itertools.product(["module", "names", "type", "mixed"], repeat=len(es)))
            if len(allforms) > 256:
                import random
                allforms = list(itertools.product(["module", "names"], repeat=len(es))) + random.Random(seed * 1000 + len(es)).sample(allforms, 96)
            for forms in allforms:
                for placement in (0, 1):
                    edges = [(i, j, f, (placement + b) % 3, False) for b, ((i, j), f) in enumerate(zip(es, forms))]
                    cases.append({"n": n, "edges": edges, "layout": "flat"})
        # the same graphs laid out over directories: odd modules in lib/ reaching the others through `../` ("alt"), and every
        # module in a directory of its own under a file name it SHARES with other modules / with the entry ("twin")
        for es in all_dags(n):
            for forms in itertools.product(["module", "names"], repeat=len(es)):
                for layout in ("alt", "twin", "facade"):
                    edges = [(i, j, f, b % 3, False) for b, ((i, j), f) in enumerate(zip(es, forms))]
                    cases.append({"n": n, "edges": edges, "layout": layout})
        # the same graphs with every import statement of one importer placed inside a function of that importer
        for es in all_dags(n):
            for form in ("module", "names"):
                edges = [(i, j, form, b % 3, False) for b, (i, j) in enumerate(es)]
                for src in sorted(set(i for i, _ in es)):
                    cases.append({"n": n, "edges": edges, "layout": "flat", "infn": [[i, j, form] for i, j in es if i == src]})
        # the same graphs with the import statements of one importer placed directly in LOOP bodies that run 0, 1 or 2 times
        for es in all_dags(n):
            for form in ("module", "names"):
                edges = [(i, j, form, b % 3, False) for b, (i, j) in enumerate(es)]
                for src in sorted(set(i for i, _ in es)):
                    for passes in (0, 1, 2):
                        cases.append({"n": n, "edges": edges, "layout": "flat", "inloop": [[i, j, form, passes] for i, j in es if i == src]})
                    mine = [(i, j) for i, j in es if i == src]
                    if len(mine) >= 2:
                        cases.append({"n": n, "edges": edges, "layout": "flat", "inloop": [[i, j, form, q % 3] for q, (i, j) in enumerate(mine)]})
        # the edit / rebuild cycle: the same graphs built, ONE module edited (each in turn), built again
        for es in all_dags(n):
            for form in ("module", "names"):
                edges = [(i, j, form, b % 3, False) for b, (i, j) in enumerate(es)]
                for k in range(1, n):
                    for first in ("run", "compile"):
                        for layout in ("flat", "alt"):
                            cases.append({"n": n, "edges": edges, "layout": layout, "edit": k, "first": first})
        # the same graphs with one module (each in turn) written "declare first, export at the bottom"
        for es in all_dags(n):
            for form in ("module", "names"):
                edges = [(i, j, form, b % 3, False) for b, (i, j) in enumerate(es)]
                for j in range(1, n):
                    cases.append({"n": n, "edges": edges, "layout": "flat", "profiles": {str(j): "late"}})
        # the same graphs with a module that exports nothing / only a constant (module-form imports only)
        for es in all_dags(n):
            for j in range(1, n):
                for pk in ("none", "const"):
                    edges = [(i, jj, "module" if jj == j else "names", b % 3, False) for b, (i, jj) in enumerate(es)]
                    cases.append({"n": n, "edges": edges, "layout": "flat", "profiles": {str(j): pk}})
    return cases


@st.composite
def graphs(draw):
    g = G(draw)
    n = g.int(2, 5)
    edges = []
    for j in range(1, n):
        importers = [i for i in range(j) if g.chance(45)] or [g.int(0, j - 1)]
        for i in importers:
            forms = g.choice([["module", "names"], ["type", "module"], ["type", "names"], ["mixed", "module"]]) if g.chance(15) else \
                [g.choice(["module", "names", "module", "names", "type", "mixed"])]
            for f in forms:
                edges.append((i, j, f, g.int(0, 2), g.chance(12)))
    profiles = {str(j): g.choice(["none", "const"]) for j in range(1, n) if g.chance(20)}
    # a module without a full export table can only be imported in module form, once per importer
    seen, kept = set(), []
    for e in edges:
        if str(e[1]) in profiles:
            if (e[0], e[1]) in seen:
                continue
            seen.add((e[0], e[1]))
            e = (e[0], e[1], "module", e[3], e[4])
        kept.append(e)
    edges = kept
    infn = [[e[0], e[1], e[2]] for e in edges if e[2] in ("module", "names") and g.chance(15)]
    # one name per importer: an edge inside a function needs its (importer, imported, form) to be unique
    infn = [x for x in infn if sum(1 for e in edges if [e[0], e[1], e[2]] == x) == 1]
    layout = g.choice(["flat", "flat", "sub", "alt", "twin", "facade"])
    if layout == "twin":
        g.label("same-file-name-in-several-directories")
        return {"n": n, "edges": edges, "layout": layout, "profiles": {}}
    if g.chance(25):
        k = g.int(1, n - 1)
        if str(k) not in profiles:
            g.label("rebuild-after-edit")
            return {"n": n, "edges": edges, "layout": layout, "profiles": profiles, "edit": k, "first": g.choice(["run", "compile"])}
    if infn:
        g.label("import-inside-function")
        return {"n": n, "edges": edges, "layout": layout, "profiles": profiles, "infn": infn}
    return {"n": n, "edges": edges, "layout": layout, "profiles": profiles}


def strategy(tier):
    return graphs()


def n_random(tier):
    return 1200 if tier == "quick" else 40000
