"""C01 — core statements and control flow execute per the language semantics."""
import os
from hypothesis import strategies as st
from ..engine import CaseResult, fail
from .. import scenario, ms, model, gen
from ..gen import G, Scope, I, gen_int, gen_bool, gen_str, gen_expr

ID = "C01"
LEVEL = "exploration"
RULE = ("cases are well-typed programs of the core statement language built by a type-directed Hypothesis generator "
        "(<= 80 statements, nesting <= 5: if / else-if / else, while, from..to/through with literal, variable or compound-expression step and "
        "anonymous / named / colliding counter, break, continue, return, functions with parameters, recursion through self(), "
        "int/bool/str expressions, list indexing, division) plus an enumerated family of small control-flow skeletons, a naming family (every word of the grammar inside a name), every binary operator between two effectful calls (operand order), function-valued variables re-assigned inside nested blocks and `&&` / `||` between an effectful call and a boolean literal on either side in six positions; the "
        "oracle is an independent reference interpreter (lexical scoping, checked i32 arithmetic): stdout must equal the "
        "model's output exactly and the exit status must be 0, or - where the model prescribes a failure (assert, zero "
        "divisor, index range, overflow) - stdout must stop exactly there and the exit status be non-zero. Non-trivial = a "
        "break/continue/return under at least one block inside a loop, or a loop nested in a loop/branch; distinct by program text")
ASSUMPTIONS = ["the reference interpreter follows the lexical scoping rules the compiler enforces statically",
               "integer overflow counts as a failure (dev-profile build)"]


class Ctx:
    def __init__(self, g):
        self.g = g
        self.sc = Scope()
        self.nt = False
        self.stmts = 0


def gen_block(c, depth, loop_depth, blocks_in_loop, fn_ret, n_max):
    """-> list of statements. fn_ret: None = module level, "void", or a type."""
    g, sc = c.g, c.sc
    out = []
    n = g.int(1, n_max)
    for i in range(n):
        if c.stmts >= 80:
            break
        c.stmts += 1
        deep = depth < 5 and c.stmts < 70
        choice = g.weighted([
            (4, "print"), (3, "decl"), (3 if any(sc.assignable(t) for t in ("int", "bool", "str")) else 0, "assign"),
            (3 if deep else 0, "if"), (2 if deep else 0, "from"), (2 if deep else 0, "while"),
            (2 if loop_depth > 0 else 0, "break"), (2 if loop_depth > 0 else 0, "continue"),
            (1 if fn_ret not in (None, "void") else 0, "return"),
            (1 if gen.int_funcs(sc, None) else 0, "callstmt"), (1, "assert"), (1, "opassign"), (1, "listdecl"),
        ])
        if choice == "print":
            t = g.weighted([(3, "int"), (2, "str"), (1, "bool")])
            out.append(("print", gen_expr(g, sc, t, 2)))
        elif choice == "decl":
            t = g.weighted([(3, "int"), (1, "str"), (1, "bool")])
            name = g.fresh("v")
            e = gen_expr(g, sc, t, 2)
            out.append(("decl", name, t if g.chance(40) else None, e, ()))
            sc.declare(name, t)
        elif choice == "listdecl":
            name = g.fresh("l")
            out.append(("decl", name, ("list", "int"), ("list", [gen_int(g, sc, 0) for _ in range(g.int(1, 4))]), ()))
            sc.declare(name, ("list", "int"))
        elif choice == "assign":
            t = g.choice([t for t in ("int", "bool", "str") if sc.assignable(t)])
            name = g.choice(sc.assignable(t))
            out.append(("decl", name, None, gen_expr(g, sc, t, 2), ()))
        elif choice == "opassign":
            if not sc.assignable("int"):
                out.append(("print", gen_int(g, sc, 1)))
                continue
            name = g.choice(sc.assignable("int"))
            out.append(("opassign", ("var", name), g.choice(["+=", "-=", "*="]), gen_int(g, sc, 1)))
        elif choice == "assert":
            g.label("assert")
            out.append(("assert", gen_bool(g, sc, 1) if g.chance(40) else ("lit", "bool", True)))
        elif choice == "callstmt":
            name = g.choice(gen.int_funcs(sc, None))
            ps, _ = sc.funcs[name]
            args = [I(g.int(0, 3)) if (j == 0 and name.startswith("rec")) else gen_expr(g, sc, p, 1) for j, p in enumerate(ps)]
            out.append(("expr", ("call", ("var", name), args)))
        elif choice == "if":
            out.append(gen_if(c, depth, loop_depth, blocks_in_loop, fn_ret, g.int(0, 2)))
        elif choice == "while":
            if loop_depth > 0 or depth > 0:
                c.nt = True
            # terminating by construction: the fuel variable is bumped first and never assigned in the body
            fuel = g.fresh("w")
            out.append(("decl", fuel, None, I(0), ()))
            sc.declare(fuel, "int")
            sc.protected.add(fuel)
            bound = g.int(1, 4)
            cond = ("bin", "<", ("var", fuel), I(bound))
            if g.chance(30):
                cond = ("bin", "&&", cond, gen_bool(g, sc, 1))
            sc.push_block()
            body = [("decl", fuel, None, ("bin", "+", ("var", fuel), I(1)), ())]
            body += gen_block(c, depth + 1, loop_depth + 1, 0, fn_ret, 4)
            sc.pop_block()
            out.append(("while", cond, body))
            g.label("while")
        elif choice == "from":
            if loop_depth > 0 or depth > 0:
                c.nt = True
            out.append(gen_from(c, depth, loop_depth, fn_ret))
        elif choice == "break":
            if blocks_in_loop > 0:
                c.nt = True
            g.label("break@%d" % min(blocks_in_loop, 3))
            out.append(("break",))
            break
        elif choice == "continue":
            if blocks_in_loop > 0:
                c.nt = True
            g.label("continue@%d" % min(blocks_in_loop, 3))
            out.append(("continue",))
            break
        elif choice == "return":
            if loop_depth > 0 and blocks_in_loop > 0:
                c.nt = True
            g.label("return@loop%d" % min(loop_depth, 3))
            out.append(("return", None if fn_ret == "void" else gen_expr(g, sc, fn_ret, 2)))
            break
    return out


def gen_if(c, depth, loop_depth, blocks_in_loop, fn_ret, n_elif):
    g, sc = c.g, c.sc
    cond = gen_bool(g, sc, 2)
    sc.push_block()
    then = gen_block(c, depth + 1, loop_depth, blocks_in_loop + (1 if loop_depth else 0), fn_ret, 3)
    sc.pop_block()
    if g.chance(10):
        then = []                 # a block without statements is a block too
        g.label("empty-then-block")
    els = None
    kind = g.weighted([(3, "none"), (3, "else"), (2 if n_elif > 0 else 0, "elif")])
    if kind == "else":
        sc.push_block()
        els = gen_block(c, depth + 1, loop_depth, blocks_in_loop + (1 if loop_depth else 0), fn_ret, 3)
        sc.pop_block()
        if g.chance(18):
            els = []
            g.label("empty-else-block")
        g.label("if-else")
    elif kind == "elif":
        els = gen_if(c, depth, loop_depth, blocks_in_loop, fn_ret, n_elif - 1)
        g.label("else-if")
    return ("if", cond, then, els)


def gen_from(c, depth, loop_depth, fn_ret):
    g, sc = c.g, c.sc
    start = I(g.int(-2, 3)) if g.chance(70) else gen_int(g, sc, 0)
    end = I(g.int(0, 5)) if g.chance(70) else gen_int(g, sc, 0)
    if end[0] == "var" or start[0] == "var":
        # keep iteration counts small whatever the data: clamp through a literal window
        pass
    inclusive = g.chance(50)
    stepk = g.weighted([(4, "none"), (3, "lit"), (2, "var"), (2, "expr")])
    pre = []
    step = None
    if stepk == "lit":
        step = I(g.int(1, 3))
    elif stepk == "var":
        sv = g.fresh("s")
        # a positive step held in a variable (the statement quantifies over positive steps)
        step = ("var", sv)
        pre = [("decl", sv, None, I(g.int(1, 3)), ())]
        sc.declare(sv, "int")
        sc.protected.add(sv)
    elif stepk == "expr":
        # a step that compiles to several instructions (evaluated once per iteration, also after `continue`)
        sv = g.fresh("s")
        step = g.choice([("bin", "+", ("var", sv), I(g.int(0, 2))), ("bin", "*", ("var", sv), I(g.int(1, 2))), ("bin", "-", I(g.int(3, 4)), ("var", sv))])
        pre = [("decl", sv, None, I(g.int(1, 2)), ())]
        sc.declare(sv, "int")
        sc.protected.add(sv)
    namek = g.weighted([(3, "anon"), (4, "named"), (2 if sc.assignable("int") else 0, "collide")])
    name = None
    if namek == "named":
        name = g.fresh("n")
    elif namek == "collide":
        name = g.choice(sc.assignable("int"))
        g.label("from:collide-same-block" if name in sc.in_current_block("int") else "from:collide-outer-block")
    g.label("from:" + ("through" if inclusive else "to") + ":" + stepk + ":" + namek)
    sc.push_block()
    if namek == "named":
        sc.declare(name, "int")
    was_protected = name in sc.protected if name else False
    if name:
        sc.protected.add(name)
    body = gen_block(c, depth + 1, loop_depth + 1, 0, fn_ret, 4)
    if g.chance(8):
        body = []
        g.label("empty-loop-body")
    if name and not was_protected and namek == "collide":
        sc.protected.discard(name)
    sc.pop_block()
    loop = ("from", start, end, inclusive, step, name, body)
    if pre:
        return ("seq", pre + [loop])
    return loop


def flatten(stmts):
    out = []
    for s in stmts:
        if s[0] == "seq":
            out += flatten(s[1])
        elif s[0] == "if":
            out.append(flat_if(s))
        elif s[0] == "while":
            out.append(("while", s[1], flatten(s[2])))
        elif s[0] == "from":
            out.append(s[:6] + (flatten(s[6]),))
        elif s[0] == "decl" and s[3][0] == "fn":
            f = s[3]
            out.append(("decl", s[1], s[2], ("fn", f[1], f[2], flatten(f[3])), s[4]))
        else:
            out.append(s)
    return out


def flat_if(s):
    e = s[3]
    if isinstance(e, tuple) and e and e[0] == "if":
        e = flat_if(e)
    elif e is not None:
        e = flatten(e)
    return ("if", s[1], flatten(s[2]), e)


def gen_function(c, idx):
    g, sc = c.g, c.sc
    rec = g.chance(30)
    ret = g.weighted([(4, "int"), (1, "bool"), (1, "str"), (2, "void")])
    name = ("rec%d" if rec else "f%d") % idx
    params = [("n%d_" % idx, "int")] if rec else []
    for j in range(g.int(0, 2)):
        params.append(("p%d_%d" % (idx, j), g.weighted([(3, "int"), (1, "bool"), (1, "str")])))
    sc.push_fn()
    for pn, pt in params:
        sc.declare(pn, pt)
        sc.protected.add(pn)
    body = []
    if rec:
        g.label("recursion")
        nargs = [("bin", "-", ("var", params[0][0]), I(1))] + [gen_expr(g, sc, pt, 1) for _, pt in params[1:]]
        call = ("selfcall", nargs)
        if ret == "void":
            # no `return` exists for functions without a result: recurse under a guard instead
            sc.push_block()
            pre = gen_block(c, 2, 0, 0, ret, 2)
            sc.pop_block()
            body.append(("if", ("bin", ">", ("var", params[0][0]), I(0)), pre + [("expr", call)], None))
        else:
            base = ("return", gen_expr(g, sc, ret, 0))
            body.append(("if", ("bin", "<=", ("var", params[0][0]), I(0)), [base], None))
            tmp = g.fresh("r")
            body.append(("decl", tmp, None, call, ()))
            sc.declare(tmp, ret)
    body += gen_block(c, 1, 0, 0, ret, 4)
    if ret != "void" and not (body and body[-1][0] == "return"):
        body.append(("return", gen_expr(g, sc, ret, 2)))
    sc.pop_fn()
    sc.funcs[name] = ([pt for _, pt in params], None if ret == "void" else ret)
    fn = ("fn", params, None if ret == "void" else ret, body)
    return ("decl", name, None, fn, ())


@st.composite
def programs(draw):
    g = G(draw)
    c = Ctx(g)
    stmts = [("print", ("lit", "str", "@start"))]
    nfun = g.int(0, 3)
    for i in range(nfun):
        stmts.append(gen_function(c, i))
        if g.chance(50):
            stmts += gen_block(c, 0, 0, 0, None, 2)
    stmts += gen_block(c, 0, 0, 0, None, 8)
    stmts.append(("print", ("lit", "str", "@end")))
    return {"stmts": flatten(stmts), "labels": sorted(g.labels), "nt": c.nt}


def build(stmts):
    """-> (scenario, model failure or None) or None when the model runs out of fuel"""
    src, marks = ms.program(stmts)
    try:
        out, failure = model.Interp().run(stmts)
    except model.OutOfFuel:
        return None
    asserts = [{"kind": "stdout_eq", "step": "run", "value": out},
               {"kind": "exit", "step": "run", "in": ["ok"] if failure is None else ["error", "panic"]}]
    return scenario.simple(src, asserts=asserts), failure


def check(case):
    b = build(case["stmts"])
    if b is None:
        return CaseResult(evals=0, labels=["discard:model-fuel"])
    sc, failure = b
    src = sc["files"]["p/q/r/main.ms"]
    labels = list(case["labels"]) + ["model:" + (failure.kind if failure else "ok")]
    r = CaseResult(nt_keys=[src] if case["nt"] else [], labels=labels,
                   sample={"source": src, "expected_stdout": sc["asserts"][0]["value"][-300:], "expected_failure": failure.kind if failure else None})
    res, fails, _ = scenario.execute(sc)
    if fails:
        run = res["run"]
        if "Did not compile" in run.stderr:
            r.rejected = True
            if os.environ.get("MSV_DEBUG"):
                print("REJECTED:\n" + src + "\n" + run.stdout[:600])
            if failure is None:
                # the reference interpreter runs this program to completion: a compile-time rejection of it is a violation
                # (when the model predicts a run-time failure, the compiler may legitimately report it earlier)
                diag = "\n".join(l for l in run.stdout.split("\n") if " = " in l or "-->" in l)[:600]
                r.failure = fail("the compiler rejected a program that the language accepts and the reference interpreter runs:\n" + diag + "\n" + src,
                                 "C01:rejected-valid-program", sc, case={"diagnostics": diag})
            return r
        sym = "stdout" if run.stdout != sc["asserts"][0]["value"] else "exit"
        feats = [l for l in case["labels"] if l.startswith("feat:")]
        sig = "C01:%s:expected-%s:got-%s:%s" % (sym, failure.kind if failure else "ok", run.klass, ",".join(feats))
        r.failure = fail("; ".join(fails), sig, sc, case={"source": src})
    return r


def grammar_words():
    """every word the grammar of the working tree spells as a literal (keywords, type names, operators written as words)"""
    import re
    g = open(os.path.join(os.environ.get("VERIF_REPO", "/repo"), "compiler", "src", "grammar.pest")).read()
    return sorted(set(re.findall(r'"([A-Za-z][A-Za-z_]*)"', g)))


def naming_cases():
    """a name that merely CONTAINS a word of the language (`constant`, `nilable`, `imports`, `selfish`, `printer`, `ifx`) is an
    ordinary name: programs that use such names as variable, function, parameter, loop variable and captured variable run like
    the same programs with any other name"""
    V = lambda n: ("var", n)
    words = grammar_words()
    out, seen = [], set()
    for w in words:
        for name in (w + "x", w + "_", w + "1", w + "s", w + "ed", "x" + w, "_" + w, w + "_" + w, w + w, w.upper(), w.capitalize()):
            import re
            if name in words or name in seen or re.fullmatch(r"B\d+|Self|self", name):
                continue
            seen.add(name)
            p2 = name + "2"
            stmts = [("decl", name, None, I(5), ()),
                     ("print", ("bin", "+", V(name), I(1))),
                     ("decl", name, None, ("bin", "*", V(name), I(2)), ()),
                     ("decl", p2, None, ("fn", [(name, "int")], "int", [("return", ("bin", "+", V(name), I(1)))]), ()),
                     ("print", ("call", V(p2), [V(name)])),
                     ("from", I(0), I(2), False, None, name + "3", [("print", V(name + "3"))]),
                     ("decl", "bump", None, ("fn", [], None, [("decl", name, None, ("bin", "+", V(name), I(1)), ("modify",))]), ()),
                     ("expr", ("call", V("bump"), [])),
                     ("if", ("bin", "==", V(name), I(11)), [("print", V(name))], [("print", I(0))])]
            out.append({"stmts": stmts, "labels": ["naming:" + w], "nt": True})
    return out


def logic_literal_cases():
    """`&&` / `||` between a call WITH AN EFFECT and a boolean literal, the literal on either side, in every position a complete
    value can stand: the call runs unless the LEFT operand already decides (the literal on the right never spares the call)"""
    V = lambda n: ("var", n)
    B = lambda b: ("lit", "bool", b)
    S = lambda t: ("lit", "str", t)
    out = []
    for ret in (True, False):
        tick = ("decl", "tick", None, ("fn", [("tag", "str")], "bool", [("decl", "n", None, ("bin", "+", V("n"), I(1)), ("modify",)), ("print", ("bin", "+", S("tick "), V("tag"))), ("return", B(ret))]), ())
        call = lambda t: ("call", V("tick"), [S(t)])
        forms = {"call-and-false": ("bin", "&&", call("a"), B(False)), "call-or-true": ("bin", "||", call("a"), B(True)), "false-and-call": ("bin", "&&", B(False), call("a")),
                 "true-or-call": ("bin", "||", B(True), call("a")), "call-and-true": ("bin", "&&", call("a"), B(True)), "call-or-false": ("bin", "||", call("a"), B(False)),
                 "not-call-and-false": ("not", ("bin", "&&", call("a"), B(False))), "call-and-not-true": ("bin", "&&", call("a"), ("not", B(True))),
                 "two-calls-and-false": ("bin", "&&", ("bin", "&&", call("a"), call("b")), B(False))}
        for fname, e in forms.items():
            places = {"if": [("if", e, [("print", S("then"))], [("print", S("else"))])],
                      "while": [("decl", "go", None, I(0), ()), ("while", ("bin", "&&", ("bin", "<", V("go"), I(2)), e), [("decl", "go", None, ("bin", "+", V("go"), I(1)), ())])],
                      "assign": [("decl", "r", None, e, ()), ("print", V("r"))], "print": [("print", e)],
                      "return": [("decl", "w", None, ("fn", [], "bool", [("return", e)]), ()), ("print", ("call", V("w"), []))],
                      "argument": [("decl", "idb", None, ("fn", [("b", "bool")], "bool", [("return", V("b"))]), ()), ("print", ("call", V("idb"), [e]))]}
            for pname, st_ in places.items():
                stmts = [("decl", "n", None, I(0), ()), tick] + st_ + [("print", ("bin", "+", S("calls="), V("n")))]
                out.append({"stmts": stmts, "labels": ["logic-literal:%s:%s" % (fname, pname)], "nt": True})
    return out


def operand_order_cases():
    """every binary operator between two calls WITH AN EFFECT (each prints its tag and bumps a counter the other one reads):
    operands are evaluated left to right, whatever the operator is compiled to"""
    V = lambda n: ("var", n)
    S = lambda t: ("lit", "str", t)
    out = []
    nxt = ("decl", "nxt", None, ("fn", [("tag", "str")], "int", [("decl", "n", None, ("bin", "+", ("bin", "*", V("n"), I(2)), I(1)), ("modify",)), ("print", ("bin", "+", S("eval "), V("tag"))), ("return", V("n"))]), ())
    call = lambda t: ("call", V("nxt"), [S(t)])
    for op in ("+", "-", "*", "<", "<=", ">", ">=", "==", "!="):
        e = ("bin", op, call("left"), call("right"))
        e3 = ("bin", op, ("bin", "+", call("a"), call("b")), call("c")) if op in ("<", "<=", ">", ">=", "==", "!=") else ("bin", op, ("bin", op, call("a"), call("b")), call("c"))
        for pname, st_ in (("print", [("print", e)]), ("if", [("if", e if op in ("<", "<=", ">", ">=", "==", "!=") else ("bin", ">", e, I(0)), [("print", S("then"))], [("print", S("else"))])]),
                           ("assign", [("decl", "r", None, e, ()), ("print", V("r"))]), ("three", [("print", e3)]),
                           ("in-function", [("decl", "w", None, ("fn", [], None, [("print", e)]), ()), ("expr", ("call", V("w"), []))])):
            out.append({"stmts": [("decl", "n", None, I(0), ()), nxt] + st_ + [("print", V("n"))], "labels": ["operand-order:%s:%s" % (op, pname)], "nt": True})
    return out


def function_variable_cases():
    """a variable that holds a FUNCTION is a variable like any other: re-assigned inside a nested block (if / else / while / from,
    two deep, inside a function) it holds the new function after the block, for the owner and for a closure that reads it"""
    V = lambda n: ("var", n)
    FT = ("fn", ["int"], "int")
    mk = lambda nm, op, k: ("decl", nm, None, ("fn", [("x", "int")], "int", [("return", ("bin", op, V("x"), I(k)))]), ())
    out = []
    for new_kind in ("named", "literal", "copy-of-copy"):
        newv = {"named": V("dbl"), "literal": ("fn", [("x", "int")], "int", [("return", ("bin", "-", V("x"), I(100)))]), "copy-of-copy": V("alias")}[new_kind]
        assign = [("decl", "cur", None, newv, ())]
        wraps = {"same-level": assign, "if": [("if", ("bin", ">", V("sel"), I(0)), assign, None)], "else": [("if", ("bin", "<", V("sel"), I(0)), [("print", I(0))], assign)],
                 "while": [("decl", "go", None, I(0), ()), ("while", ("bin", "<", V("go"), I(1)), [("decl", "go", None, ("bin", "+", V("go"), I(1)), ())] + assign)],
                 "from": [("from", I(0), I(1), False, None, None, assign)], "two-deep": [("if", ("bin", ">", V("sel"), I(0)), [("from", I(0), I(1), False, None, None, assign)], None)]}
        for wname, w in wraps.items():
            core = [("decl", "cur", None, V("inc"), ()), ("decl", "reader", None, ("fn", [], "int", [("return", ("call", V("cur"), [I(7)]))]), ()), ("print", ("call", V("cur"), [I(3)]))] + w + \
                   [("print", ("call", V("cur"), [I(3)])), ("print", ("call", V("reader"), [])), ("from", I(0), I(2), False, None, "q", [("print", ("call", V("cur"), [V("q")]))])]
            head = [("decl", "sel", None, I(1), ()), mk("inc", "+", 1), mk("dbl", "*", 2), ("decl", "alias", None, V("dbl"), ())]
            out.append({"stmts": head + core, "labels": ["function-variable:%s:%s:module" % (new_kind, wname)], "nt": True})
            out.append({"stmts": head + [("decl", "run", None, ("fn", [], "int", core + [("return", ("call", V("cur"), [I(1)]))]), ()), ("print", ("call", V("run"), []))],
                        "labels": ["function-variable:%s:%s:function" % (new_kind, wname)], "nt": True})
    return out


def early_exit_same_name_cases(tier):
    """a function leaves a nest of blocks early (return from 1-3 blocks deep; also break / continue out of them) while the
    innermost block holds a variable `sq` of its own; afterwards the caller - at module level or in another function - reads and
    updates ITS variable `sq` inside a nest of blocks of the same or another depth: the frames the callee abandoned are gone"""
    import itertools
    V = lambda n: ("var", n)
    D = lambda n, e: ("decl", n, None, e, ())
    KINDS = ["while", "if", "from", "else"]

    def wrap(kinds, body, tag):
        for j, k in enumerate(reversed(kinds)):
            g = "%s%d" % (tag, j)
            if k == "while":
                body = [D(g, I(0)), ("while", ("bin", "<", V(g), I(2)), [D(g, ("bin", "+", V(g), I(1)))] + body)]
            elif k == "if":
                body = [("if", ("bin", ">", V("one"), I(0)), body, None)]
            elif k == "else":
                body = [("if", ("bin", "<", V("one"), I(0)), [("print", I(0 - 1))], body)]
            else:
                body = [("from", I(0), I(2), False, None, None, body)]
        return body
    maxd = 2 if tier == "quick" else 3
    nests = [list(c) for d in range(1, maxd + 1) for c in itertools.product(KINDS, repeat=d)]
    out = []
    for inner in nests:
        for exit_ in ("return", "break-then-return", "run-off"):
            if exit_ == "return":
                leave = [D("sq", ("bin", "*", V("lim"), I(3))), ("if", ("bin", ">", V("sq"), V("lim")), [("return", V("sq"))], None)]
            elif exit_ == "break-then-return":
                if not any(k in ("while", "from") for k in inner):
                    continue
                leave = [D("sq", ("bin", "*", V("lim"), I(3))), ("if", ("bin", ">", V("sq"), V("lim")), [("break",)], None)]
            else:
                leave = [D("sq", ("bin", "*", V("lim"), I(3)))]
            fn_body = [D("one", I(1))] + wrap(inner, leave, "gi") + [("return", I(0))]
            for outer in nests:
                if exit_ != "return" and len(outer) != len(inner):
                    continue
                use = [("print", V("sq")), D("sq", ("bin", "+", V("sq"), I(1)))]
                for where in ("module", "function"):
                    tail = wrap(outer, use, "go") + [("print", V("sq"))]
                    stmts = [D("one", I(1)), D("early", ("fn", [("lim", "int")], "int", fn_body)), D("sq", I(7)), ("print", ("call", V("early"), [I(20)]))]
                    if where == "module":
                        stmts += tail
                    else:
                        stmts += [D("later", ("fn", [], "int", [D("sq", I(40))] + tail + [("return", V("sq"))])), ("print", ("call", V("later"), [])), ("print", V("sq"))]
                    out.append({"stmts": stmts, "labels": ["early-exit-same-name:%s:%d-deep:then-%d-deep:%s" % (exit_, len(inner), len(outer), where)], "nt": True})
    return out


def enumerated(tier, seed):
    from .. import skeletons
    cases = naming_cases() + logic_literal_cases() + operand_order_cases() + function_variable_cases() + early_exit_same_name_cases(tier)
    for desc, stmts in skeletons.all_skeletons(2 if tier == "quick" else 3):
        labels = ["skel:loop=" + desc["loop"], "skel:exit=" + desc["exit"] + ("@%d" % len(desc["wraps"])),
                  "skel:" + ("fn" if desc["in_fn"] else "module")]
        nt = desc["exit"] != "none" and (len(desc["wraps"]) >= 1 or desc["guarded"])
        cases.append({"stmts": stmts, "labels": labels, "nt": nt})
    return cases


def strategy(tier):
    return programs()


def n_random(tier):
    return 9600 if tier == "quick" else 100000


def files(case):
    """source files of a case (used by the differential properties C04 / C09 / C18)"""
    return {"main.ms": ms.program(case["stmts"])[0]}
