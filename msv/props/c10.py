"""C10 — `const` names cannot be written to by any syntactic form."""
import itertools
from ..engine import CaseResult, fail
from .. import scenario

ID = "C10"
LEVEL = "fault_enumeration"
RULE = ("the full cross product (declaration context: module / function / if block / from-loop body / while-loop body / else block, each declared as `const C: T = v`, `const C = v`, by "
        "unpacking `const [C, z] = [v, 0]` or as `export const`; class name / imported module / imported module under another name / imported scalar member / imported list member / a constant followed by a same-named class alias / by an import of a module file with its name) x (type: int, str, bool, [int...], int?, object with a field, optional object, optional list) x (write form: =, += -= *= /= %=, ?= in "
        "statement / if / while position, modify = from an inner function (untyped / typed, also after the inner function declared its own variable of that name), c[i] = v, c[i] += v, c.f = v, c.f += v, (get c).f += v, (c or d).f += v, (get c)[i] += v, reuse as "
        "from-loop counter, unpacking) x (write context: same scope, nested block, loop body, nested function, method, another "
        "module), inapplicable combinations skipped by typing, is enumerated completely in both tiers; (c or d) is used with the constant as the present value AND as the fallback. Every write form additionally runs once as a NON-CONST TWIN (the same program without the `const` keyword), which must be accepted and must run: a form that is rejected for a reason other than constness would make the main verdict vacuous (a failing twin is reported as inconclusive, exit 2, never as a violation). Oracle: the program is "
        "rejected at compile time, or - for forms that by the language's rules create a different variable (plain `=` inside a "
        "nested function or method) - it runs and both the declaring scope and a closure created before the write still "
        "observe the initializer. Non-trivial = the write context differs from the declaration context; distinct by "
        "(declaration, type, form, write context)")
ASSUMPTIONS = ["method calls that mutate a constant container (c.push) are not write forms of the statement and are not generated"]
EXHAUSTIVE = {"quick": True, "thorough": True}

TYPES = {
    # name: (annotation, initializer, other value, observation expr of C, expected text)
    "int": ("int", "5", "7", "C", "5"),
    "str": ("str", "\"k\"", "\"z\"", "C", "k"),
    "bool": ("bool", "true", "false", "C", "true"),
    "list": ("[int...]", "[1, 2]", "lz", "C", "[1, 2]"),        # an un-annotated list literal cannot be assigned: use a typed variable
    "opt": ("int?", "5", "7", "C", "5"),
    "obj": (None, "K()", "K()", "C.f", "1"),
    "optobj": ("K?", "K()", "K()", "(get C).f", "1"),
    "optlist": ("[int...]?", "[1, 2]", "lz", "get C", "[1, 2]"),
    # an object that holds ANOTHER object: state reachable from the constant through a field or through a getter
    "objinner": (None, "K()", "K()", "(C.inner).g", "3"),
}
OPS = ["+=", "-=", "*=", "/=", "%="]


def write_forms(t):
    """[(form name, statement text using C, needs_inner_fn)]"""
    ann, init, other, obs, exp = TYPES[t]
    out = [("assign", "C = %s" % other, False)]
    if t == "int":
        out += [("op" + op, "C %s 2" % op, False) for op in OPS]
        out.append(("loop-counter", "from 0 to 3, C {\n}", False))
        out.append(("loop-counter-step", "from 0 through 8 step 2, C {\n}", False))
        out.append(("unpack", "[C, unp] = [7, 8]", False))
        # the constant in every position of a multi-name unpack, next to names that are new and names that already exist
        out += [("unpack-second-after-new", "[unq, C] = [7, 8]", False), ("unpack-second-after-existing", "ev = 0\n[ev, C] = [7, 8]", False),
                ("unpack-middle-after-existing", "ev = 0\n[ev, C, unz] = [7, 8, 9]", False), ("unpack-last-of-three", "ev = 0\new = 0\n[ev, ew, C] = [7, 8, 9]", False),
                ("unpack-first-before-existing", "ev = 0\n[C, ev] = [7, 8]", False), ("unpack-twice", "ev = 0\n[ev, C] = [7, 8]\n[ev, C] = [9, 10]", False),
                # ONE name: with the trailing comma the grammar asks for, from a list of one and of two elements, from a variable
                ("unpack-single-name", "[C,] = [7]", False), ("unpack-single-name-of-two", "[C,] = [7, 8]", False), ("unpack-single-name-from-variable", "upv = [7, 8]\n[C,] = upv", False),
                ("unpack-single-name-then-assign", "[C,] = [7]\nC = 9", False)]
    if t == "str":
        out.append(("op+=", "C += \"x\"", False))
        out += [("unpack-second-after-existing", "ev = \"e\"\n[ev, C] = [\"p\", \"q\"]", False), ("unpack-second-after-new", "[unq, C] = [\"p\", \"q\"]", False)]
    if t == "opt":
        out.append(("unwrap-stmt", "C ?= src", False))
        out.append(("unwrap-if", "if C ?= src {\n}", False))
        out.append(("unwrap-while", "while C ?= src {\n\tbreak\n}", False))
        out.append(("unwrap-expr", "uw = C ?= src", False))
    if t == "list":
        out.append(("index-assign", "C[0] = 9", False))
        out += [("index-op" + op, "C[0] %s 9" % op, False) for op in ("+=", "-=", "*=")]
        out.append(("typed-redeclare", "C: [int...] = [9]", False))
    if t == "obj":
        out.append(("field-assign", "C.f = 9", False))
        out += [("field-op" + op, "C.f %s 9" % op, False) for op in ("+=", "*=")]
    if t == "objinner":
        out += [("inner-field-assign", "C.inner.g = 9", False), ("inner-field-op+=", "C.inner.g += 9", False), ("getter-field-assign", "C.get_inner().g = 9", False),
                ("getter-field-op+=", "C.get_inner().g += 9", False), ("self-then-getter-field-assign", "C.me().get_inner().g = 9", False),
                ("getter-of-getter-field-assign", "C.get_inner().me().g = 9", False), ("getter-result-replaced", "C.inner = In()", False)]
    SEP = "if true {\n}\n"      # a statement must not start with `(` right after an expression: it would be parsed as a call
    if t == "obj":
        out += [("or-fallback-field-op+=", "nobody: K? = nil\n" + SEP + "(nobody or C).f += 9", False)]
    if t == "optobj":
        out += [("unwrapped-field-op+=", SEP + "(get C).f += 9", False), ("or-field-op+=", SEP + "(C or K()).f += 9", False), ("unwrapped-field-op*=", SEP + "(get C).f *= 9", False)]
    if t == "optlist":
        out += [("unwrapped-index-op+=", SEP + "(get C)[0] += 9", False), ("or-index-op+=", SEP + "(C or [5])[0] += 9", False)]
    if t in ("int", "str", "bool", "opt"):
        out.append(("typed-redeclare", "C: %s = %s" % (ann, other), False))
    out.append(("modify", "modify C = %s" % other, True))
    # the inner function first declares its OWN variable named like the constant (a legal shadow) and then uses `modify`,
    # which by-passes that local and addresses the captured constant
    out.append(("shadow-then-modify", "C = %s\nmodify C = %s" % (other, other), True))
    out.append(("shadow-then-modify-in-block", "if true {\n\tC = %s\n\tmodify C = %s\n}" % (other, other), True))
    if ann:
        out.append(("typed-modify", "modify C: %s = %s" % (ann, other), True))
        out.append(("shadow-then-typed-modify", "C: %s = %s\nmodify C: %s = %s" % (ann, other, ann, other), True))
    return out


WRITE_CTX = ["same", "block", "loop", "while", "fn", "method", "closure-in-block"]
DECL_CTX = ["module", "function", "block", "from-body", "while-body", "else-body"]


def ind(text, n=1):
    return "\n".join("\t" * n + l for l in text.split("\n"))


def place_write(w, ctx):
    """wrap the write statement in its write context; returns statements text"""
    if ctx == "same":
        return w
    if ctx == "block":
        return "if true {\n%s\n}" % ind(w)
    if ctx == "loop":
        return "from 0 to 2 {\n%s\n}" % ind(w)
    if ctx == "while":
        return "wg = 0\nwhile wg < 1 {\n\twg = wg + 1\n%s\n}" % ind(w)
    if ctx == "fn":
        return "wr = fn() {\n%s\n}\nwr()" % ind(w)
    if ctx == "closure-in-block":
        return "if true {\n\twr = fn() {\n%s\n\t}\n\twr()\n}" % ind(w, 2)
    if ctx == "method":
        return "class M {\n\tfn go(self) {\n%s\n\t}\n}\nmm = M()\nmm.go()" % ind(w, 2)
    raise ValueError(ctx)


DECL_FORMS = ["typed", "untyped", "unpack", "export"]


def decl_forms(decl_ctx, t):
    """declaration forms applicable to (context, type): `const C: T = v`, `const C = v`, `const [C, cz] = [v, 0]`,
    `export const C: T = v` (module level only); the optional type needs its annotation"""
    out = ["typed"]
    if t not in ("opt", "obj", "optobj", "optlist", "objinner"):
        out.append("untyped")
    if t not in ("opt", "optobj", "optlist"):
        out.append("unpack")
    if decl_ctx == "module" and t not in ("obj", "objinner"):
        out.append("export")
    return out


def program(decl_ctx, t, form, wtext, wctx, dform="typed", const=True):
    ann, init, other, obs, exp = TYPES[t]
    pre = "class K {\n\tf: int\n\tconstructor(self) {\n\t\tself.f = 1\n\t}\n}\n" if t in ("obj", "optobj") else ""
    if t == "objinner":
        pre = ("class In {\n\tg: int\n\tconstructor(self) {\n\t\tself.g = 3\n\t}\n\tfn me(self) -> Self {\n\t\treturn self\n\t}\n}\n"
               "class K {\n\tf: int\n\tinner: In\n\tconstructor(self) {\n\t\tself.f = 1\n\t\tself.inner = In()\n\t}\n\tfn get_inner(self) -> In {\n\t\treturn self.inner\n\t}\n\tfn me(self) -> Self {\n\t\treturn self\n\t}\n}\n")
    if dform == "typed":
        decl = "const C%s = %s" % ((": " + ann) if ann else "", init)
    elif dform == "untyped":
        decl = "const C = %s" % init
    elif dform == "unpack":
        decl = "const [C, cz] = [%s, 0]" % init
    else:
        decl = "export const C: %s = %s" % (ann, init)
    if not const:
        decl = decl.replace("const ", "", 1)        # the non-const twin: the same write must then be accepted
    aux = "src: int? = 7\n" if t == "opt" else ("lz: [int...] = [9]\n" if t in ("list", "optlist") else "")
    reader = "rd = fn() -> %s {\n\treturn %s\n}" % ({"int": "int", "str": "str", "bool": "bool", "list": "[int...]", "opt": "int?", "obj": "int", "optobj": "int", "optlist": "[int...]", "objinner": "int"}[t], obs)
    body = "%s\n%s%s\n%s\nprint \"@obs\"\nprint %s\nprint rd()" % (decl, aux, reader, place_write(wtext, wctx), obs)
    if decl_ctx == "module":
        return pre + "print \"@start\"\n" + body + "\n"
    if decl_ctx == "function":
        return pre + "print \"@start\"\nmain = fn() {\n%s\n}\nmain()\n" % ind(body)
    if decl_ctx == "from-body":
        return pre + "print \"@start\"\nfrom 0 to 1, dround {\n%s\n}\n" % ind(body)
    if decl_ctx == "while-body":
        return pre + "print \"@start\"\ndq = 0\nwhile dq < 1 {\n\tdq = dq + 1\n%s\n}\n" % ind(body)
    if decl_ctx == "else-body":
        return pre + "print \"@start\"\ndq = 0\nif dq > 0 {\n\tprint \"no\"\n} else {\n%s\n}\n" % ind(body)
    return pre + "print \"@start\"\nif true {\n%s\n}\n" % ind(body)


def special_programs():
    """class names, imported modules and imported members as the constant"""
    out = []
    lib = "export const V: int = 5\nexport counter: int = 0\nexport get_v: fn() -> int = fn() -> int {\n\treturn V\n}\n"
    kclass = "class K {\n\tf: int\n\tconstructor(self) {\n\t\tself.f = 1\n\t}\n}\n"
    for ctx in ("same", "block", "fn", "loop", "while", "closure-in-block"):
        for w in ("K = 5", "K = K()", "K += 1", "modify K = 5", "from 0 to 3, K {\n}", "[K, z] = [1, 2]"):
            if w.startswith("modify") and ctx != "fn":
                continue
            src = kclass + "print \"@start\"\n" + place_write(w, ctx) + "\nprint \"@obs\"\nk = K()\nprint k.f\nprint 1\n"
            out.append(({"decl": "class-name", "type": "class", "form": w.split("\n")[0], "wctx": ctx}, {"main.ms": src}, "1"))
        for w in ("lib = 5", "lib += 1", "lib.V = 7", "lib.V += 1", "modify lib = 5"):
            if w.startswith("modify") and ctx != "fn":
                continue
            src = "import lib\nprint \"@start\"\n" + place_write(w, ctx) + "\nprint \"@obs\"\nprint lib.V\nprint lib.get_v()\n"
            out.append(({"decl": "imported-module", "type": "module", "form": w, "wctx": ctx}, {"main.ms": src, "lib.ms": lib}, "5"))
        # the module under another name: members stay unwritable (value read back through the module and a getter)
        for w in ("k.V = 7", "k.V += 1", "k.counter = 3", "k.counter += 1", "k.counter ?= 3"):
            src = "import lib\nk = lib\nprint \"@start\"\n" + place_write(w, ctx) + "\nprint \"@obs\"\nprint lib.%s\nprint lib.%s\n" % (("V", "get_v()") if "V" in w else ("counter", "counter"))
            out.append(({"decl": "module-alias", "type": "module", "form": w, "wctx": ctx}, {"main.ms": src, "lib.ms": lib}, "5" if "V" in w else "0"))
        # a const OBJECT of the module written through `or`, the module (under another name) on either side of it
        libo = "export class P {\n\tn: int\n\tconstructor(self) {\n\t\tself.n = 5\n\t}\n}\nexport const p: P = P()\nexport get_n: fn() -> int = fn() -> int {\n\treturn p.n\n}\n"
        for w in ("(d or k.p).n += 1", "(d or lib.p).n += 1", "(k.p or e).n += 1", "if true {\n}\n(d or k.p).n = 7", "((d or k.p)).n -= 1", "(d or (d or k.p)).n += 1"):
            src = "import lib\nimport P from lib\nk = lib\nd: P? = nil\ne = P()\nprint \"@start\"\nif true {\n}\n" + place_write(w, ctx) + "\nprint \"@obs\"\nprint (lib.p).n\nprint lib.get_n()\n"
            out.append(({"decl": "module-member-through-or", "type": "obj", "form": w.split("\n")[-1], "wctx": ctx}, {"main.ms": src, "lib.ms": libo}, "5"))
        for w in ("V = 7", "V += 1", "V -= 1", "modify V = 7", "from 0 to 3, V {\n}", "[V, z] = [1, 2]", "V: int = 7"):
            if w.startswith("modify") and ctx != "fn":
                continue
            # an imported member may be shadowed by a local of the importer (the repository's test
            # `not_import_const_bypass` documents that); what must never change is the exporting module's value
            src = "import V, get_v from lib\nimport lib\nprint \"@start\"\n" + place_write(w, ctx) + "\nprint \"@obs\"\nprint lib.V\nprint get_v()\n"
            out.append(({"decl": "imported-member", "type": "int", "form": w.split("\n")[0], "wctx": ctx}, {"main.ms": src, "lib.ms": lib}, "5"))
        # imported members that are CONTAINERS are shared with the exporting module: an index assignment rooted at the imported name
        # would change the module's state for every importer (for `export const` and for plain `export` alike)
        liblist = ("export const LC: [int...] = [1, 2, 3]\nexport LV: [int...] = [1, 2, 3]\nexport peek_c: fn() -> [int...] = fn() -> [int...] {\n\treturn LC\n}\n"
                   "export peek_v: fn() -> [int...] = fn() -> [int...] {\n\treturn LV\n}\n")
        for name, peek in (("LC", "peek_c"), ("LV", "peek_v")):
            for w in ("%s[0] = 9", "%s[1] += 40", "%s[2] -= 1", "modify %s = [9]"):
                w = w % name
                if w.startswith("modify") and ctx != "fn":
                    continue
                src = "import %s, %s from lib\nimport lib\nprint \"@start\"\n" % (name, peek) + place_write(w, ctx) + "\nprint \"@obs\"\nprint lib.%s\nprint %s()\n" % (name, peek)
                out.append(({"decl": "imported-list-member" + ("/const" if name == "LC" else ""), "type": "list", "form": w.replace(name, "L"), "wctx": ctx}, {"main.ms": src, "lib.ms": liblist}, "[1, 2, 3]"))
        # a whole-module import is a declaration of the module's name: a constant (or a class) with the name of a module file must
        # not be replaced by it in a nested block
        for cdecl, obs, exp in (("const C = 5", "C", "5"), ("const C: str = \"mono\"", "C", "mono")):
            for w in ("import C", "import v from C\nimport C"):
                src = "print \"@start\"\n" + cdecl + "\nrd = fn() -> %s {\n\treturn C\n}\n" % ("int" if exp == "5" else "str") + place_write(w, ctx) + "\nprint \"@obs\"\nprint C\nprint rd()\n"
                out.append(({"decl": "const-named-like-a-module", "type": "int" if exp == "5" else "str", "form": w.replace("\n", "; "), "wctx": ctx}, {"main.ms": src, "C.ms": "export v: int = 1\n"}, exp))
        # a type alias of a class declared AFTER a constant of the same name must not unseat the constant; the alias itself is
        # a name for the constructor and cannot be reassigned
        for w in ("type C K\nC = K()\nC.f = 9", "type C K\nC.f = 9", "type Al K\nAl = K", "type Al K\nAl = 5"):
            src = kclass + "print \"@start\"\nconst C = K()\nrd = fn() -> int {\n\treturn C.f\n}\n" + place_write(w if ctx != "fn" else w, ctx) + "\nprint \"@obs\"\nprint C.f\nprint rd()\n"
            out.append(({"decl": "const-then-type-alias", "type": "obj", "form": w.replace("\n", "; "), "wctx": ctx}, {"main.ms": src}, "1"))
    # a function declares a constant named like a variable it could capture: `modify` with that name addresses the captured
    # variable - and must not leave the name standing for anything but the constant in what follows
    for t, outer, init, other, obs, exp, writes in (
            ("int", "C = 1", "const C = 5", "6", "C", "5", ["C = 7", "C += 1", "C -= 1", "C *= 3", "from 0 to 3, C {\n}", "[C, z] = [1, 2]", "C: int = 7", "modify C = 8"]),
            ("str", "C = \"a\"", "const C = \"k\"", "\"b\"", "C", "k", ["C = \"z\"", "C += \"z\"", "C: str = \"z\""]),
            ("list", "C: [int...] = [1]", "const C: [int...] = [5]", "[6]", "C", "[5]", ["C[0] = 9", "C[0] += 9", "C = [7]"]),
            ("obj", "C = K()", "const C = K()", "K()", "C.f", "1", ["C.f = 9", "C.f += 9", "C = K()"])):
        for hide in ("modify C = %s" % other, "if true {\n\tmodify C = %s\n}" % other, "from 0 to 1 {\n\tmodify C = %s\n}" % other, "modify C = %s\nmodify C = %s" % (other, other)):
            for w in writes:
                for wctx in ("same", "block", "loop"):
                    body = "%s\nrd = fn() -> %s {\n\treturn %s\n}\n%s\n%s\nprint \"@obs\"\nprint %s\nprint rd()" % (
                        init, {"int": "int", "str": "str", "list": "[int...]", "obj": "int"}[t], obs, hide, place_write(w, wctx), obs)
                    src = (kclass if t == "obj" else "") + outer + "\nprint \"@start\"\nmain = fn() {\n" + ind(body) + "\n}\nmain()\n"
                    out.append(({"decl": "own-const-beside-captured-variable", "type": t, "form": (hide.split("\n")[0] if not hide.startswith("modify") else "modify") + "; " + w.split("\n")[0], "wctx": wctx}, {"main.ms": src}, exp))
    # FREEZING a variable: a mutable variable that closures already write is declared again as a constant of the same name; after
    # that declaration the name stands for the constant, and calling the old closures must not change what it shows
    for t, first, init, obs, exp, writers in (
            ("int", "C = 1", "5", "C", "5", ["modify C = C + 40", "C += 40", "C = 7\n\tmodify C = 8"]),
            ("str", "C = \"a\"", "\"k\"", "C", "k", ["modify C = \"z\"", "C += \"z\""]),
            ("list", "C: [int...] = [1]", "[5]", "C", "[5]", ["modify C = [9]", "C[0] = 9", "C.push(9)\n\tmodify C = [9]"]),
            ("obj", "C = K()", "K()", "C.f", "1", ["modify C = K()", "C.f = 9", "C.f += 9"])):
        for w in writers:
            for freeze in ("const C = %s" % init, "const C: %s = %s" % ({"int": "int", "str": "str", "list": "[int...]", "obj": "K"}[t], init), "if true {\n\tconst C = %s\n}" % init,
                           "const [C, cz] = [%s, 0]" % init):
                for where in ("module", "function"):
                    body = "%s\nwr = fn() {\n\t%s\n}\nwr()\n%s\nrd = fn() -> %s {\n\treturn %s\n}\nwr()\nprint \"@obs\"\nprint %s\nprint rd()" % (
                        first, w, freeze, {"int": "int", "str": "str", "list": "[int...]", "obj": "int"}[t], obs, obs)
                    if freeze.startswith("if true"):
                        continue      # (a constant of an inner block does not rename the outer variable: nothing to observe)
                    src = (kclass if t == "obj" else "") + "print \"@start\"\n" + (body if where == "module" else "main = fn() {\n" + ind(body) + "\n}\nmain()") + "\n"
                    out.append(({"decl": "freeze-after-capture/" + where, "type": t, "form": freeze.split(" = ")[0] + "; " + w.split("\n")[0], "wctx": "closure-made-before"}, {"main.ms": src}, exp))
    return out


def enumerated(tier, seed):
    cases = []
    for decl_ctx in DECL_CTX:
        for t in TYPES:
            for form, wtext, inner in write_forms(t):
                for wctx in WRITE_CTX:
                    if inner and wctx not in ("fn", "method", "closure-in-block"):
                        continue
                    if wctx == "method" and decl_ctx != "module":
                        continue      # classes are declared at module level
                    if decl_ctx == "block" and wctx == "method":
                        continue
                    for dform in decl_forms(decl_ctx, t):
                        cases.append({"desc": {"decl": decl_ctx if dform == "typed" else decl_ctx + "/" + dform, "type": t, "form": form, "wctx": wctx},
                                      "files": {"main.ms": program(decl_ctx, t, form, wtext, wctx, dform)}, "expect": TYPES[t][4]})
    # twins: the same program with the `const` keyword removed must be ACCEPTED - otherwise the write form is rejected for a
    # reason that has nothing to do with constness and its "rejected" verdict above would be vacuous
    seen_twin = set()
    for decl_ctx in DECL_CTX:
        for t in TYPES:
            for form, wtext, inner in write_forms(t):
                if form == "typed-redeclare" or form.startswith("unpack"):
                    continue           # unpacking never targets an existing name, const or not
                for wctx in ("same", "fn") if not inner else ("fn",):
                    for dform in decl_forms(decl_ctx, t):
                        if dform == "unpack" or (dform == "untyped" and t == "list") or (decl_ctx, t, form, wctx, dform) in seen_twin:
                            continue           # an unpacked list is only allowed as a const
                        seen_twin.add((decl_ctx, t, form, wctx, dform))
                        cases.append({"desc": {"decl": decl_ctx + "/" + dform, "type": t, "form": form, "wctx": wctx}, "twin": True,
                                      "files": {"main.ms": program(decl_ctx, t, form, wtext, wctx, dform, const=False)}, "expect": TYPES[t][4]})
    # controls: the same programs with a harmless statement in place of the write must be accepted and run
    # (otherwise "rejected" verdicts above would be vacuous)
    for decl_ctx in DECL_CTX:
        for t in TYPES:
            for dform in decl_forms(decl_ctx, t):
                for wctx in WRITE_CTX:
                    if wctx == "method" and decl_ctx != "module":
                        continue
                    cases.append({"desc": {"decl": decl_ctx if dform == "typed" else decl_ctx + "/" + dform, "type": t, "form": "control", "wctx": wctx},
                                  "files": {"main.ms": program(decl_ctx, t, "control", "print \"@w\"", wctx, dform)}, "expect": TYPES[t][4], "control": True})
    for desc, files, exp in special_programs():
        cases.append({"desc": desc, "files": files, "expect": exp})
    return cases


@scenario.assert_kind("c10_const")
def a_const(a, res, ctx):
    r = res["run"]
    if "Did not compile" in r.stderr:
        if "@start" in r.stdout.split("\n"):
            return "diagnostics were printed but the program also started running"
        return None
    lines = r.stdout.split("\n")
    if "@obs" not in lines:
        return "accepted by the compiler, then stopped before the observation (exit %s): %r" % (r.klass, r.stderr[-300:])
    i = lines.index("@obs")
    seen = lines[i + 1:i + 3]
    if seen != [a["expect"], a["expect"]]:
        return "accepted by the compiler and the constant changed: declaring scope / earlier closure observe %r, initializer is %r" % (seen, a["expect"])
    return None


def make_scenario(case):
    return {"files": {"p/q/r/" + k: v for k, v in case["files"].items()}, "cwd": "p/q/r",
            "steps": [{"id": "run", "argv": ["mscript", "run", "main.ms", "-q"]}],
            "asserts": [{"kind": "c10_const", "expect": case["expect"]}]}


def check(case):
    d = case["desc"]
    sc = make_scenario(case)
    res, fails, _ = scenario.execute(sc)
    key = "%s|%s|%s|%s" % (d["decl"], d["type"], d["form"], d["wctx"])
    rejected = "Did not compile" in res["run"].stderr
    if case.get("twin"):
        ok = not rejected and res["run"].klass == "ok"
        r = CaseResult(evals=0, labels=["twin=" + ("accepted" if ok else "REJECTED")], sample=None)
        if not ok and not (d["wctx"] == "fn" and d["form"] in ("assign", "modify") and False):
            r.failure = fail("the non-const twin of a write form was not accepted and run: the form is invalid for another reason (harness problem, not a violation)\n%s\n%s" % (case["files"]["main.ms"], (res["run"].stdout + res["run"].stderr)[-500:]),
                             "C10:twin", sc, case=d)
            r.failure["inconclusive"] = True
        return r
    if case.get("control"):
        ok = not fails and not rejected and "@w" in res["run"].stdout.split("\n")
        r = CaseResult(evals=0, labels=["control=" + ("ok" if ok else "FAILED")], sample=None)
        if not ok:
            r.failure = fail("control program (no write) was not accepted and run: harness problem, not a violation\n%s\n%s" % (case["files"]["main.ms"], res["run"].stdout[-400:]),
                             "C10:control", sc, case=d)
            r.failure["inconclusive"] = True
        return r
    r = CaseResult(nt_keys=[key] if d["wctx"] != "same" else [], labels=["decl=" + d["decl"], "form=" + d["form"], "wctx=" + d["wctx"],
                                                                       "verdict=" + ("rejected" if rejected else "accepted-unchanged" if not fails else "VIOLATION")],
                   sample={"case": d, "main.ms": case["files"]["main.ms"]})
    if fails:
        sym = "changed" if "constant changed" in fails[0] else ("runtime-stop" if "stopped before" in fails[0] else "ran-with-diagnostics")
        r.failure = fail("%s: %s\n%s" % (key, "; ".join(fails), case["files"]["main.ms"]), "C10:%s:%s:%s" % (sym, d["form"], d["type"]), sc, case=d)
    return r


def n_random(tier):
    return 0
