"""C06 — compile-time constant folding agrees with run-time evaluation."""
import itertools, os
from hypothesis import strategies as st
from ..engine import CaseResult, fail, match_known
from .. import scenario, ms, num
from ..num import Num, Fail
from ..gen import G

ID = "C06"
LEVEL = "exploration"
RULE = ("cases are expression trees over numeric literals of the four kinds (boundary values, incl. an int literal too wide for "
        "32 bits, and alternative spellings of one value: leading zeros, digit separators, hexadecimal / binary forms, `f` suffix and trailing-zero floats), + - * / % << >> & | xor, unary minus, `!` on bool literals, `get`, `(x) or y` over nil / literals, optionally "
        "inside a list literal; every tree is rendered FOLDED (literals inline) and UNFOLDED (each literal first bound to a "
        "variable of its kind). Enumerated: all depth-1 trees over the full leaf set and all depth-2 trees over a reduced leaf "
        "set (thorough) / a seeded third of them (quick); random: Hypothesis trees to depth 3. Oracle (metamorphic): with typed "
        "print the (kind, text) of the folded program equals the unfolded one's, and the folded program is rejected at compile "
        "time exactly when the unfolded run fails. Non-trivial = >= 2 operators or mixed kinds; distinct by tree text")
ASSUMPTIONS = ["a minus sign directly in front of an int literal that does not fit 32 bits forms one literal (-2147483648 is the int minimum); such trees are not generated",
               "dev-profile build; the reference numeric model is used only to batch trees and label coverage, never as the oracle"]
ENV = {"MSCRIPT_VERIF_TYPED_PRINT": "1"}

L = lambda k, v: ("lit", k, v)
LEAVES = [L("int", v) for v in (0, 1, 2, 3, 7, 31, 32, 2147483647)] + [L("wide", v) for v in (2147483648, 9223372036854775807, 9223372036854775808, 12345678901234567890, 2 ** 127 - 1)] + \
         [L("bigint", v) for v in (0, 1, 5, 2 ** 31, 2 ** 127 - 1)] + [L("float", v) for v in (0.0, 0.5, 1.5, 2.0, 0.1, 16777216.5, 3000000000.5, 1e300, 1e-7, 1e-17, 1e-300, 5e-324)] + \
         [L("byte", v) for v in (0, 1, 2, 255)]
# the same values in the other spellings the grammar accepts: the folder works on the literal's TEXT
SPELLED = [("lit", "int", 7, "007"), ("lit", "int", 8, "010"), ("lit", "int", 1000, "1_000"), ("lit", "int", 10, "0_1_0"), ("lit", "int", 255, "0xFF"), ("lit", "int", 7, "0x07"),
           ("lit", "int", 0, "000"), ("lit", "bigint", 42, "B0042"), ("lit", "bigint", 255, "B0xff"), ("lit", "bigint", 1000, "B1_000"), ("lit", "bigint", 0, "B00"),
           ("lit", "float", 3.0, "3f"), ("lit", "float", 7.0, "007F"), ("lit", "float", 7.5, "007.5"), ("lit", "float", 1.5, "1.50"), ("lit", "float", 1000.25, "1_000.2_5"),
           ("lit", "byte", 5, "0b0000101"), ("lit", "byte", 5, "0b1_01"), ("lit", "byte", 0, "0b000")]
SMALL = [L("int", 1), L("int", 2147483647), L("bigint", 2), L("float", 1.5), L("byte", 255), L("int", 0)]
ARITH = ["+", "-", "*", "/", "%"]
BITS = ["&", "|", "xor", "<<", ">>"]


def kind_of(e):
    """static kind of a tree: int / bigint / float / byte / bool / nil / None (ill-typed)"""
    k = e[0]
    if k == "lit":
        return "bigint" if e[1] == "wide" else e[1]
    if k == "nil":
        return "nil"
    if k == "neg":
        t = kind_of(e[1])
        return t if t in ("int", "bigint", "float") else None
    if k == "not":
        return "bool" if kind_of(e[1]) == "bool" else None
    if k == "get":
        t = kind_of(e[1])
        return None if t in (None,) else t
    if k == "or":
        a, b = kind_of(e[1]), kind_of(e[2])
        if b == "nil":
            return a          # `(x or nil)` is x (literal-only: the type checker only takes it when x is itself nil-like)
        if b in (None, "bool"):
            return None
        if a == "nil" or a == b:
            return b
        return None
    if k == "bin":
        a, b = kind_of(e[2]), kind_of(e[3])
        if a not in num.KINDS or b not in num.KINDS:
            return None
        if e[1] in BITS and "float" in (a, b):
            return None
        return num.promote(a, b)
    return None


def ev(e):
    k = e[0]
    if k == "lit":
        if e[1] == "bool":
            return e[2]
        return Num("bigint" if e[1] == "wide" else e[1], float(e[2]) if e[1] == "float" else e[2])
    if k == "nil":
        return None
    if k == "neg":
        return num.neg(ev(e[1]))
    if k == "not":
        return not ev(e[1])
    if k == "get":
        v = ev(e[1])
        if v is None:
            raise Fail("nil")
        return v
    if k == "or":
        v = ev(e[1])
        return v if v is not None else ev(e[2])
    a, b = ev(e[2]), ev(e[3])
    return num.arith(e[1], a, b) if e[1] in ARITH else num.bitop(e[1], a, b)


def lit_src(e):
    if len(e) > 3:
        return e[3]           # an alternative source spelling of the same value (leading zeros, underscores, hex, `f` suffix)
    if e[1] == "wide":
        return str(e[2])
    if e[1] == "bool":
        return "true" if e[2] else "false"
    return ms.lit_text(e[1], e[2])


def render(e, decls=None, prefix="v", nilkind="int"):
    """folded rendering when decls is None; else leaves become variables `prefix<n>` (decls collects the declarations)"""
    k = e[0]
    if k == "lit":
        if decls is None:
            return lit_src(e)
        v = "%s%d" % (prefix, len(decls))
        kind = "bigint" if e[1] == "wide" else e[1]
        decls.append("%s%s = %s" % (v, "" if e[1] == "wide" else ": " + kind, lit_src(e)))
        return v
    if k == "nil":
        if decls is None:
            return "nil"
        v = "%s%d" % (prefix, len(decls))
        decls.append("%s: %s? = nil" % (v, nilkind))
        return v
    if k == "neg":
        return "(-%s)" % render(e[1], decls, prefix, nilkind)
    if k == "not":
        return "(!%s)" % render(e[1], decls, prefix, nilkind)
    if k == "get":
        return "(get %s)" % render(e[1], decls, prefix, nilkind)
    if k == "or":
        nk = kind_of(e[2]) or "int"
        if decls is not None and kind_of(e[2]) == "nil":
            # a nil FALLBACK cannot be spelled with variables (the fallback of `or` must not be optional): `(x or nil)` is x
            return render(e[1], decls, prefix, nilkind)
        if nk == "nil":
            nk = nilkind
        return "((%s) or %s)" % (render(e[1], decls, prefix, nk), render(e[2], decls, prefix, nilkind))
    return "(%s %s %s)" % (render(e[2], decls, prefix, nilkind), e[1], render(e[3], decls, prefix, nilkind))


def programs(trees, in_list):
    """-> (folded source, unfolded source)"""
    f, u = [], []
    for i, t in enumerate(trees):
        f.append('print "@%d"' % i)
        u.append('print "@%d"' % i)
        ft = render(t)
        decls = []
        ut = render(t, decls, "t%d_" % i)
        u += decls
        if in_list:
            f.append("print [%s]" % ft)
            u.append("print [%s]" % ut)
        else:
            f.append("print " + ft)
            u.append("print " + ut)
    return "\n".join(f) + "\n", "\n".join(u) + "\n"


@scenario.assert_kind("c06_agree")
def a_agree(a, res, ctx):
    f, u = res["folded"], res["unfolded"]
    f_rej = "Did not compile" in f.stderr
    u_rej = "Did not compile" in u.stderr
    if u_rej:
        return "harness: the unfolded rendering was rejected at compile time: %r" % u.stdout[-300:]
    out = []
    if f_rej and "compile time" not in f.stdout and "guaranteed to fail" not in f.stdout:
        return "harness: the folded rendering was rejected by the type checker, not by constant evaluation: %r" % f.stdout[-300:]
    if f_rej:
        if u.klass == "ok":
            out.append("folded form rejected at compile time but the unfolded form runs: %r (diagnostic: %r)" % (u.stdout[-120:], f.stdout[-300:]))
    else:
        if u.klass != "ok" and f.klass == "ok" and f.stdout != u.stdout:
            out.append("unfolded run fails (%s) but the folded form compiled and ran: %r" % (u.klass, f.stdout[-120:]))
        elif f.stdout != u.stdout:
            fl, ul = f.stdout.split("\n"), u.stdout.split("\n")
            i = 0
            while i < min(len(fl), len(ul)) and fl[i] == ul[i]:
                i += 1
            out.append("value/kind differs at line %d: folded %r vs unfolded %r" % (i + 1, fl[i] if i < len(fl) else "<end>", ul[i] if i < len(ul) else "<end>"))
        elif (f.klass == "ok") != (u.klass == "ok"):
            out.append("exit class differs: folded %s unfolded %s" % (f.klass, u.klass))
        # (a folded form that is accepted and then fails at run time exactly like the unfolded one is tolerated)
    return out or None


def make_scenario(trees, in_list=False):
    fs, us = programs(trees, in_list)
    return {"files": {"p/q/r/folded.ms": fs, "p/q/r/unfolded.ms": us}, "cwd": "p/q/r",
            "steps": [{"id": "folded", "argv": ["mscript", "run", "folded.ms", "-q"], "env": ENV},
                      {"id": "unfolded", "argv": ["mscript", "run", "unfolded.ms", "-q"], "env": ENV}],
            "asserts": [{"kind": "c06_agree"}]}


def count_ops(e):
    if e[0] in ("lit", "nil"):
        return 0
    return 1 + sum(count_ops(x) for x in e[1:] if isinstance(x, tuple))


def kinds_in(e):
    if e[0] == "lit":
        return {e[1]}
    s = set()
    for x in e[1:]:
        if isinstance(x, tuple):
            s |= kinds_in(x)
    return s


def shape(e):
    if e[0] == "lit":
        return e[1]
    if e[0] == "nil":
        return "nil"
    if e[0] == "bin":
        return "(%s%s%s)" % (shape(e[2]), e[1], shape(e[3]))
    return "%s(%s)" % (e[0], ",".join(shape(x) for x in e[1:] if isinstance(x, tuple)))


def dead_fallback_fails(t):
    """some `(x) or y` has a present x and a y that fails when evaluated on its own (y is never evaluated at run time)"""
    if t[0] == "or":
        try:
            present = ev(t[1]) is not None
        except (Fail, ValueError, OverflowError):
            present = False
        if present:
            try:
                ev(t[2])
            except Fail:
                return True
            except (ValueError, OverflowError):
                pass
    return any(dead_fallback_fails(x) for x in t[1:] if isinstance(x, tuple))


def predicted(t):
    try:
        ev(t)
        return "ok"
    except Fail as f:
        return "fail:" + f.reason
    except (ValueError, OverflowError):
        return "unknown"


def check(case):
    trees, in_list = case["trees"], case.get("in_list", False)
    ok_trees = [t for t in trees if predicted(t) == "ok"]
    lone = [t for t in trees if predicted(t) != "ok"]
    nt = [render(t) for t in trees if count_ops(t) >= 2 or len(kinds_in(t)) >= 2]
    labels = []
    for t in trees:
        labels.append("model:" + predicted(t).split("-")[0])
    r = CaseResult(evals=len(trees), nt_keys=nt, labels=labels + (["in-list"] if in_list else []),
                   sample={"folded": render(trees[0]), "unfolded": programs([trees[0]], in_list)[1], "model": predicted(trees[0])})
    suspects = list(lone)
    batch_fails = None
    if ok_trees:
        res, fails, _ = scenario.execute(make_scenario(ok_trees, in_list))
        if fails:
            suspects = ok_trees + suspects
            batch_fails = fails
    first_known = None
    for t in suspects:
        sc = make_scenario([t], in_list)
        res, fails, _ = scenario.execute(sc)
        if not fails:
            continue
        if fails[0].startswith("harness:"):
            r.rejected = True
            if os.environ.get("MSV_DEBUG"):
                print("REJECTED", render(t), fails[0][:300])
            continue
        sym = "folded-rejected" if "rejected at compile time but" in fails[0] else ("folded-accepted" if "unfolded run fails" in fails[0] else "differs")
        tag = "dead-fallback-fails" if (sym == "folded-rejected" and dead_fallback_fails(t)) else shape(t)
        f = fail("%s  [model: %s]: %s" % (render(t), predicted(t), "; ".join(fails)), "C06:%s:%s" % (sym, tag), sc, case={"tree": render(t)})
        if match_known(f["signature"]):
            first_known = first_known or f
            continue
        r.failure = f
        return r
    if first_known:
        r.failure = first_known
    elif batch_fails and not batch_fails[0].startswith("harness:"):
        # every tree agrees with its unfolded form when it is compiled ALONE, the program that holds them all does not: what the
        # folder did for one expression changed what it does for another. Look for two trees that show it (in both orders).
        sc, shown = make_scenario(ok_trees, in_list), "%d trees" % len(ok_trees)
        done = False
        for j in range(len(ok_trees)):
            for i in range(len(ok_trees)):
                if i == j or done:
                    continue
                if render(ok_trees[i]).replace("B", "").replace("f", "").replace("0b", "") != render(ok_trees[j]).replace("B", "").replace("f", "").replace("0b", "") and len(ok_trees) > 12:
                    continue          # (keeps the search quadratic only among look-alikes when the program is long)
                sc2 = make_scenario([ok_trees[j], ok_trees[i]], in_list)
                _, f2, _ = scenario.execute(sc2)
                if f2 and not f2[0].startswith("harness:"):
                    sc, shown, batch_fails, done = sc2, "%s  THEN  %s" % (render(ok_trees[j]), render(ok_trees[i])), f2, True
        r.failure = fail("%s in one program: %s (each tree agrees when compiled alone)" % (shown, "; ".join(batch_fails)), "C06:cross-expression", sc, case={"trees": shown})
    return r


def neg_of_wide(t):
    """a minus sign directly in front of an int literal too wide for 32 bits: treated as ONE literal by the language
    (`-2147483648` is the int minimum), so the folded/unfolded comparison does not apply; excluded by construction"""
    if t[0] == "neg" and t[1][0] == "lit" and t[1][1] == "wide":
        return True
    return any(neg_of_wide(x) for x in t[1:] if isinstance(x, tuple))


def well_typed(t):
    return kind_of(t) is not None and not neg_of_wide(t)


def depth1(leaves):
    out = []
    for a in leaves:
        if a[1] in ("int", "bigint", "float"):
            out.append(("neg", a))
        out.append(("get", a))
    for op in ARITH + BITS:
        for a in leaves:
            for b in leaves:
                t = ("bin", op, a, b)
                if well_typed(t):
                    out.append(t)
    for b in (True, False):
        out.append(("not", L("bool", b)))
    for a in leaves[:6]:
        out.append(("or", ("nil",), a))
        out.append(("or", a, a))
    out.append(("get", ("nil",)))
    # `or` whose LEFT operand is itself a literal-only `or`: nil without being the keyword (`(nil or nil)`), or a value
    NIL = ("nil",)
    for a in leaves[:6]:
        out += [("or", ("or", NIL, NIL), a), ("or", ("or", ("or", NIL, NIL), NIL), a), ("or", ("or", NIL, a), leaves[1]), ("or", NIL, ("or", NIL, a)),
                ("or", ("or", NIL, NIL), ("bin", "+", a, a)) if a[1] in ("int", "float", "bigint") else ("or", ("or", NIL, NIL), a),
                ("get", ("or", ("or", NIL, NIL), a))]
    return out


def depth2(leaves):
    d1 = depth1(leaves)
    out = []
    for t in d1:
        if kind_of(t) in ("int", "bigint", "float"):
            out.append(("neg", t))
    for op in ARITH + BITS:
        for t in d1:
            if t[0] not in ("bin", "neg"):
                continue
            for b in leaves:
                for tt in (("bin", op, t, b), ("bin", op, b, t)):
                    if well_typed(tt):
                        out.append(tt)
    return out


def special_value_trees():
    """literal-only trees whose intermediate results are INFINITE or NaN: an infinity made by overflow (1e300 * 1e300, 1e300 + ...),
    combined with zero, itself and finite values under every float operator, on either side, and fed into a further operator"""
    H, Z, ONE = L("float", 1e300), L("float", 0.0), L("float", 1.5)
    infs = [("bin", "*", H, H), ("neg", ("bin", "*", H, H)), ("bin", "*", ("bin", "*", H, H), L("float", 2.0))]
    out = []
    for inf in infs:
        for other in (Z, ONE, H, inf, L("int", 0), L("int", 3), L("bigint", 0)):
            for op in ("+", "-", "*", "/", "%"):
                for t in (("bin", op, inf, other), ("bin", op, other, inf)):
                    if well_typed(t):
                        out.append(t)
                        out.append(("bin", "+", t, ONE))
                        out.append(("neg", t))
    return out


def extreme_value_trees():
    """literal-only trees whose operands are the EXTREMES of the integer kinds, which no single literal spells: the smallest int as
    `-2147483647 - 1`, the smallest bigint, -1 as `-1` and as `0 - 1`, 255 as a sum of bytes - under every operator, on either side,
    negated, and fed into a further operator (the asymmetric cases of two's complement: MIN / -1, MIN % -1, -MIN, MIN - 1, MIN * -1)"""
    I_, B_ = (lambda v: L("int", v)), (lambda v: L("bigint", v))
    imin = ("bin", "-", ("neg", I_(2147483647)), I_(1))
    bmin = ("bin", "-", ("neg", B_(2 ** 127 - 1)), B_(1))
    lefts = [imin, bmin, ("neg", I_(2147483647)), I_(2147483647), B_(2 ** 127 - 1), ("bin", "+", L("byte", 255), L("byte", 0)), ("bin", "-", I_(0), I_(2147483647))]
    rights = [("neg", I_(1)), ("bin", "-", I_(0), I_(1)), ("neg", B_(1)), I_(1), I_(0), I_(2), L("byte", 1), L("byte", 255), imin, bmin, I_(31), I_(32), B_(127)]
    out = []
    for a in lefts:
        out += [("neg", a), ("neg", ("neg", a))]
        for b in rights:
            for op in ARITH + BITS:
                for t in (("bin", op, a, b), ("bin", op, b, a)):
                    if well_typed(t):
                        out.append(t)
                        out.append(("bin", "+", t, I_(1)) if well_typed(("bin", "+", t, I_(1))) else t)
    seen, uniq = set(), []
    for t in out:
        if str(t) not in seen:
            seen.add(str(t))
            uniq.append(t)
    return uniq


def chunks(l, n):
    return [l[i:i + n] for i in range(0, len(l), n)]


def enumerated(tier, seed):
    d1 = depth1(LEAVES) + [t for t in depth1(SPELLED + SMALL) if any(len(x) > 3 for x in t[1:] if isinstance(x, tuple)) or (t[0] == "bin" and any(len(x) > 3 for x in t[2:]))]
    d2 = depth2(SMALL) + [t for t in depth2(SPELLED[:3] + SPELLED[7:8] + SPELLED[11:12] + SPELLED[16:17]) if "0" in str(t)]
    if tier == "quick":
        import random
        d2 = random.Random(seed).sample(d2, len(d2) // 3)
    cases = [{"trees": c} for c in chunks(d1, 60)] + [{"trees": c} for c in chunks(d2, 60)]
    cases += [{"trees": c, "in_list": True} for c in chunks(d1[::7], 60)]
    # one compilation folds MANY expressions: the same digits under every pair of kinds in one program, in both orders (what the
    # folder learned from one expression must not leak into the next), and the depth-1 trees again in a shuffled order so that
    # neighbours in one program are of unrelated kinds
    for a, b in ((7, 2), (1, 1), (0, 1), (255, 1), (5, 2), (2, 31), (100, 7)):
        same = []
        for op in ARITH + BITS:
            for ka in ("int", "bigint", "byte", "float", "floatf"):
                for kb in ("int", "bigint", "byte", "float", "floatf"):
                    def leaf(k, v):
                        if k == "float":
                            return L("float", float(v))
                        if k == "floatf":
                            return ("lit", "float", float(v), "%df" % v)
                        return L(k, v)
                    t = ("bin", op, leaf(ka, a), leaf(kb, b))
                    if well_typed(t):
                        same.append(t)
        for chunk in chunks(same, 50):
            cases.append({"trees": chunk, "family": "same-digits-across-kinds"})
            cases.append({"trees": chunk[::-1], "family": "same-digits-across-kinds"})
    import random as _r
    sh = list(d1)
    _r.Random(seed + 17).shuffle(sh)
    cases += [{"trees": c, "family": "shuffled"} for c in chunks(sh if tier != "quick" else sh[:len(sh) // 2], 60)]
    ev = extreme_value_trees()
    cases += [{"trees": c, "family": "extreme-values"} for c in chunks(ev, 60)] + [{"trees": c, "in_list": True, "family": "extreme-values"} for c in chunks(ev[::4], 60)]
    sv = special_value_trees()
    cases += [{"trees": c} for c in chunks(sv, 60)] + [{"trees": c, "in_list": True} for c in chunks(sv[::3], 60)]
    return cases


@st.composite
def tree_case(draw):
    g = G(draw)

    def gen(depth):
        if depth == 0 or g.chance(20):
            return g.choice(LEAVES) if g.chance(82) else g.choice(SPELLED)
        ch = g.weighted([(8, "bin"), (2, "neg"), (1, "get"), (1, "or")])
        if ch == "bin":
            return ("bin", g.choice(ARITH + BITS), gen(depth - 1), gen(depth - 1))
        if ch == "neg":
            return ("neg", gen(depth - 1))
        if ch == "get":
            return ("get", gen(depth - 1))
        return ("or", ("nil",) if g.chance(50) else gen(depth - 1), gen(depth - 1))
    for _ in range(20):
        t = gen(g.int(2, 3))
        if well_typed(t):
            return {"trees": [t], "in_list": g.chance(15)}
    return {"trees": [("bin", "+", L("int", 1), L("int", 2))]}


def strategy(tier):
    return tree_case()


def n_random(tier):
    return 4800 if tier == "quick" else 150000
