"""C18 — human-readable bytecode round-trips: raw-text -> transpile -> execute equals run."""
from hypothesis import strategies as st
from ..engine import CaseResult, fail, match_known
from .. import scenario
from . import c04

ID = "C18"
LEVEL = "exploration"
RULE = ("same case families as C04 restricted to single-module programs: the SIZE boundaries of C04, example-corpus files without imports, programs from "
        "the generators of C01/C07/C08/C12/C13/C15/C17(single module), and the exhaustive set of string literals over the "
        "format-special alphabet (all up to length 3; length 4 sampled in quick, complete in thorough), each literal becoming a "
        "make_str argument of the text form. Oracle: stdout and exit class of `compile --output-format raw-text`, rename to "
        ".transpiled.mmm, `transpile`, `execute` equal those of `mscript run -q`, and for the string programs also the bytes "
        "computed from the decoded strings. Non-trivial = an instruction argument contains a format-special character; "
        "distinct by program text")
ASSUMPTIONS = c04.ASSUMPTIONS
EXHAUSTIVE = {"quick": False, "thorough": True}


@scenario.assert_kind("c18_equiv")
def a_equiv(a, res, ctx):
    run = res["run"]
    if run.klass == "timeout":
        return None
    comp = res["compile"]
    if comp.klass != "ok":
        final_out, final_klass, err = comp.stdout, comp.klass, comp.stderr
    elif res["transpile"].klass != "ok":
        final_out, final_klass, err = "", "transpile-" + res["transpile"].klass, res["transpile"].stderr
    else:
        final_out, final_klass, err = res["execute"].stdout, res["execute"].klass, res["execute"].stderr
    out = []
    loose = bool(a.get("loose"))
    if c04.norm(run.stdout, loose) != c04.norm(final_out, loose):
        rl, fl = c04.norm(run.stdout, loose).split("\n"), c04.norm(final_out, loose).split("\n")
        i = 0
        while i < min(len(rl), len(fl)) and rl[i] == fl[i]:
            i += 1
        out.append("stdout differs at line %d: run %r vs text pipeline %r" % (i + 1, rl[i] if i < len(rl) else "<end>", fl[i] if i < len(fl) else "<end>"))
    if run.klass != final_klass:
        out.append("exit class differs: run %s vs text pipeline %s (stderr=%r)" % (run.klass, final_klass, err[-250:]))
    if a.get("expect_stdout") is not None and final_out != a["expect_stdout"] and not out:
        out.append("text pipeline stdout differs from the expected bytes")
    return out or None


def make_scenario(files, entry="main.ms", expect=None, loose=False):
    base = entry[:-3]
    return {"files": {"p/q/r/" + k: v for k, v in files.items()}, "cwd": "p/q/r",
            "steps": [{"id": "run", "argv": ["mscript", "run", entry, "-q"]},
                      {"id": "compile", "argv": ["mscript", "compile", entry, "--output-format", "raw-text", "--quick"]},
                      {"id": "rename", "op": "rename", "src": base + ".mmm", "dst": base + ".transpiled.mmm", "only_if_ok": "compile"},
                      {"id": "transpile", "argv": ["mscript", "transpile", base + ".transpiled.mmm"], "only_if_ok": "compile"},
                      {"id": "execute", "argv": ["mscript", "execute", base + ".mmm"], "only_if_ok": "transpile"}],
            "asserts": [{"kind": "c18_equiv", "expect_stdout": expect, "loose": loose}]}


def feats_of(s):
    f = []
    if "\\" in s:
        f.append("backslash")
    if "\n" in s:
        f.append("lf")
    if "\r" in s:
        f.append("cr")
    if "\t" in s:
        f.append("tab")
    if "\"" in s:
        f.append("quote")
    if s == "":
        f.append("empty")
    if s != "" and s.strip(" ") == "":
        f.append("only-spaces")
    return f


def check(case):
    fam = case["family"]
    if fam == "strings":
        items = case["items"]
        src, exp = c04.string_program(items)
        sc = make_scenario({"main.ms": src}, expect=exp)
        res, fails, _ = scenario.execute(sc)
        r = CaseResult(evals=len(items), nt_keys=[lit for s, lit in items if c04.special(lit)], labels=["family=strings"],
                       sample={"family": "strings", "first_literals": [lit for _, lit in items[:5]]})
        if fails:
            first_known = None
            for s, lit in items:
                src1, exp1 = c04.string_program([(s, lit)])
                sc1 = make_scenario({"main.ms": src1}, expect=exp1)
                res1, fails1, _ = scenario.execute(sc1)
                if fails1:
                    f = fail("literal %s (decoded %r): %s" % (lit, s, "; ".join(fails1)), "C18:string:%s" % ("+".join(feats_of(s)) or "plain"), sc1, case={"literal": lit})
                    if match_known(f["signature"]):
                        first_known = first_known or f
                        continue
                    r.failure = f
                    return r
            if first_known:
                r.failure = first_known
        return r
    files, entry = case["files"], case.get("entry", "main.ms")
    sc = make_scenario(files, entry, expect=case.get("expect"), loose=(fam == "corpus"))
    res, fails, _ = scenario.execute(sc)
    text = files[entry]
    labels = ["family=" + fam]
    if res["run"].klass == "timeout":
        labels.append("skipped:run-timeout")
    elif res["compile"].klass != "ok":
        labels.append("both-rejected-at-compile-time")
    else:
        labels.append("run-exit=" + res["run"].klass)
    r = CaseResult(nt_keys=[text] if c04.special(text) and res["run"].klass != "timeout" else [], labels=labels,
                   sample={"family": fam, "entry": case.get("origin", entry)})
    if fails:
        r.failure = fail("%s: %s" % (case.get("origin", fam), "; ".join(fails)) + "\n" + text[-1500:], "C18:%s:%s" % (fam, "stdout" if "stdout differs" in fails[0] else "exit"), sc,
                         case={"origin": case.get("origin", fam)})
    return r


def enumerated(tier, seed):
    corpus = [c for c in c04.corpus_cases() if "import " not in c["files"][c["entry"]]]
    for c in corpus:
        c["files"] = {c["entry"]: c["files"][c["entry"]]}
    labels = [dict(c, family="labels") for c in c04.label_cases()]
    firsts = [dict(c, family=c["family"]) for c in c04.first_statement_cases() + c04.last_statement_cases() + c04.file_name_cases()]
    return corpus + c04.size_cases() + labels + firsts + c04.string_cases(tier, seed)


def strategy(tier):
    from . import c01, c07, c08, c12, c13, c15, c17
    subs = []
    for name, mod in (("c01", c01), ("c07", c07), ("c08", c08), ("c12", c12), ("c13", c13), ("c15", c15)):
        subs.append(mod.strategy(tier).map(lambda c, mod=mod, name=name: {"family": "gen-" + name, "files": mod.files(c)}))
    subs.append(c17.strategy(tier).map(lambda c: {"family": "gen-c17", "files": c17.files(dict(c, split=len(c["chain"])))}))
    return st.one_of(subs)


def n_random(tier):
    return 1600 if tier == "quick" else 30000
