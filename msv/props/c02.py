"""C02 — static typing is sound: accepted programs never hit a dynamic type error."""
import os, re, itertools
from hypothesis import strategies as st
from ..engine import CaseResult, fail, match_known
from .. import scenario

ID = "C02"
LEVEL = "exploration"
RULE = ("enumerated: (1) the full CELL MATRIX (binary operator incl. op-assign forms x static type of the left operand x static "
        "type of the right operand) over 14 operand types (int, bigint, float, byte, bool, str, open list, fixed-shape list, map, "
        "plain and built-in-produced present optionals, function, object) with operands held in run-time variables, unary - and !, "
        "(2) the POSITION MATRIX (annotated initializer, re-assignment, argument, return, list element, map value, class field, "
        "from-loop bound/step x declared type x supplied type), (3) every built-in method call of C14's in-domain catalogue and every list / map built-in on containers whose key, value and element kinds all differ, unary operators applied directly to elements / entries / fields / call results, booleans that are elements / entries / fields / call results / unwrapped optionals in every boolean position (if, else-if, while, assert, either side of && and ||, !, ==, argument, return), (4) a "
        "catalogue of boundary cases of individual typing rules; random: programs of every generator (C01/C07/C08/C12/C13/C15/C17). "
        "Oracle for every program the compiler ACCEPTS: it must not stop with a failure outside the language's defined dynamic "
        "failures (classified from stderr: invalid operation, cannot compare, not in scope / not mapped, not a function, missing "
        "argument, unknown member, internal unreachable ...), and for every probe expression the run-time kind printed by the "
        "typed-print hook must be the kind of the static type printed by `typeof` (T? admits T or nil; aliases resolved). Rejected "
        "programs are not this property's concern (rate reported). Non-trivial = the probe mixes two kinds or passes through an "
        "optional / list / function / class type; distinct by cell")
ASSUMPTIONS = ["witness values are chosen so that no allowed dynamic failure (overflow, zero divisor, nil, range) occurs in the matrices",
               "the typed-print hook reports the kind of the value looking through present optionals and element pointers"]
ENV = {"MSCRIPT_VERIF_TYPED_PRINT": "1"}

KCLASS = "class K {\n\tn: int\n\tconstructor(self) {\n\t\tself.n = 1\n\t}\n}\n"
# name -> (declaration template with {v}, kind family for labels)
TYPES = {
    "int": ["{v}: int = {w}", ("6", "3")],
    "bigint": ["{v}: bigint = {w}", ("B6", "B3")],
    "float": ["{v}: float = {w}", ("6.5", "2.5")],
    "byte": ["{v}: byte = {w}", ("0b110", "0b11")],
    "bool": ["{v}: bool = {w}", ("true", "false")],
    "str": ["{v}: str = {w}", ("\"ab\"", "\"c\"")],
    "list": ["{v}: [int...] = {w}", ("[1, 2]", "[3]")],
    "fixed": ["const {v} = {w}", ("[1, \"x\"]", "[2, \"y\"]")],
    "map": ["{v} = map[str, int] {w}", ("{\"k\": 1}", "{\"j\": 2}")],
    "optint": ["{v}: int? = {w}", ("6", "3")],
    "optint-builtin": ["{v}: int? = {w}", ("\"6\".parse_int()", "\"3\".parse_int()")],
    "optstr-builtin": ["{v}: str? = {w}", ("sopt(\"ab\")", "sopt(\"c\")")],
    "optobj": ["{v}: K? = {w}", ("K()", "K()")],
    "optlist": ["{v}: [int...]? = {w}", ("[1, 2]", "[3]")],
    "listobj": ["{v}: [K...] = {w}", ("[K()]", "[K()]")],
    "fn": ["{v} = fn() -> int {{\n\treturn {w}\n}}", ("6", "3")],
    "obj": ["{v} = {w}", ("K()", "K()")],
}
# the same kinds reached through a type ALIAS: every rule that asks "what kind of type is this?" must look through the name
ALIASES = {"AlInt": "int", "AlFloat": "float", "AlStr": "str", "AlBool": "bool", "AlList": "[int...]", "AlMap": "map[str,int]", "AlMapI": "map[int,str]", "AlFn": "fn()", "AlObj": "K", "AlAl": "AlMap"}
ALIAS_TYPES = {
    "alias-int": ["{v}: AlInt = {w}", ("6", "3")], "alias-float": ["{v}: AlFloat = {w}", ("6.5", "2.5")], "alias-str": ["{v}: AlStr = {w}", ("\"ab\"", "\"c\"")],
    "alias-bool": ["{v}: AlBool = {w}", ("true", "false")], "alias-list": ["{v}: AlList = {w}", ("[1, 2]", "[3]")],
    "alias-map": ["{v}: AlMap = map[str, int] {w}", ("{\"k\": 1}", "{\"j\": 2}")], "alias-map-int-keys": ["{v}: AlMapI = map[int, str] {w}", ("{0: \"z\", 7: \"n\"}", "{0: \"y\"}")],
    "alias-of-alias-map": ["{v}: AlAl = map[str, int] {w}", ("{\"k\": 1}", "{\"j\": 2}")],
    "alias-fn": ["{v}: AlFn = fn() {{\n\tprint {w}\n}}", ("6", "3")], "alias-obj": ["{v}: AlObj = {w}", ("K()", "K()")], "alias-optint": ["{v}: AlInt? = {w}", ("6", "3")],
}
PRE = KCLASS + "sopt = fn(s: str) -> str? {\n\treturn s\n}\n" + "".join("type %s %s\n" % kv for kv in ALIASES.items())
BINOPS = ["+", "-", "*", "/", "%", "<", "<=", ">", ">=", "==", "!=", "&&", "||", "^", "&", "|", "xor", "<<", ">>", "is"]
OPASSIGN = ["+=", "-=", "*=", "/=", "%="]

TYPE_ERRORS = ["is invalid. (valid ops are", "cannot compare", "cannot negate", "can only test booleans", "load before store", "has not been mapped",
               "is not in scope", "is not a function", "argument does not exist", "missing arg", "does not exist on", "non-vector", "boolean comparison on a non-boolean",
               "entered unreachable code", "not implemented", "cannot index with", "not yet implemented", "bin_op requires", "unknown operation", "invalid binary operation",
               "expected a mutable heap primitive", "is not a HeapPrimitive", "cannot be used on", "can only store a single item", "ret can only return", "not comparable",
               "the compiler allowed", "STACK MISMATCH", "not an Int", "not a Float", "not a BigInt", "not a Bool", "malformed byte", "this function is not a callback",
               "does not have", "already borrowed", "requires a", "expected "]
ALLOWED = ["out of range integral type conversion attempted", "<Nil ", " Nil>", "stack overflow: calls are nested too deeply", "An explicit assertion failed", "unwrap of `nil`", "nil object", "out of bounds", "/ by 0", "% by 0", "with overflow", "overflow/underflow", "cannot be made into",
           "overflowed its stack", "could not fit", "is an invalid radix", "is an invalid power", "could not be used to index", "removal index", "cannot delete", "does not fit in a bigint",
           "byte index", "is out of range for a string", "is not a char boundary", "range end index", "range start index", "slice index", "to the power of"]


def kind_of_type_text(t):
    t = t.strip()
    opt = t.endswith("?")
    if opt:
        t = t[:-1].strip()
        if t.startswith("(") and t.endswith(")"):
            t = t[1:-1]
    n_alias = 0
    while t in ALIASES and n_alias < 4:
        t = ALIASES[t]
        n_alias += 1
        if t.endswith("?"):
            opt, t = True, t[:-1].strip()
    if t in ("int", "bigint", "float", "byte", "bool", "str"):
        k = t
    elif t == "Num":
        k = "int"
    elif t.startswith("map["):
        k = "map"
    elif t.startswith("["):
        k = "list"
    elif t.startswith("fn("):
        k = "fn"
    elif t == "nil":
        k = "nil"
    elif re.match(r"^[A-Z][A-Za-z0-9_]*$", t) or t == "Self":
        k = "obj"
    else:
        k = "?" + t
    return k, opt


@scenario.assert_kind("c02_sound")
def a_sound(a, res, ctx):
    r = res[a["step"]]
    if "Did not compile" in r.stderr:
        return None
    out = []
    if r.klass != "ok":
        err = r.stderr
        nil_use = "<Nil " in err or " Nil>" in err
        if r.klass in ("error", "panic") and any(p in err for p in ALLOWED) and (nil_use or not any(p in err for p in TYPE_ERRORS[:14])):
            if not a.get("no_failure_expected"):
                return None
            out.append("failure: an allowed dynamic failure where the witness values rule it out: %r" % err[-250:])
        else:
            out.append("type-error: accepted program stopped with a failure outside the defined dynamic failures (%s): %r" % (r.klass, err[-350:]))
    lines = r.stdout.split("\n")
    i = 0
    while i < len(lines):
        if lines[i].startswith("str:@probe"):
            if i + 2 < len(lines) and lines[i + 1].startswith("str:") and ":" in lines[i + 2]:
                static = lines[i + 1][4:]
                kind = lines[i + 2].split(":", 1)[0]
                sk, opt = kind_of_type_text(static)
                if sk.startswith("?"):
                    out.append("harness: unknown static type text %r" % static)
                elif kind != sk and not (kind == "nil" and (opt or True)):
                    out.append("kind: static type `%s` but the run-time value is a %s (%s)" % (static, kind, lines[i + 2][:60]))
            elif i + 2 < len(lines) and lines[i + 1].startswith("str:") and lines[i + 2].strip() == "" and lines[i + 1][4:] != "void":
                # the typed print writes `kind:text` for every value: an empty line means the expression produced NO value
                out.append("no-value: static type `%s` but the expression produced no value at run time" % lines[i + 1][4:])
            i += 3
        else:
            i += 1
    return out or None


def make_scenario(src, no_failure_expected=True, files=None):
    sc = scenario.simple(src, [{"id": "run", "argv": ["mscript", "run", "main.ms", "-q"], "env": ENV}],
                         [{"kind": "c02_sound", "step": "run", "no_failure_expected": no_failure_expected}], extra_files=files)
    return sc


def probe(expr):
    return "print \"@probe\"\nprint typeof (%s)\nprint (%s)\n" % (expr, expr)


def decl(t, v, which):
    tmpl, ws = TYPES[t] if t in TYPES else ALIAS_TYPES[t]
    return tmpl.format(v=v, w=ws[which])


def cell_programs():
    out = []
    for lt, rt in itertools.product(TYPES, repeat=2):
        for op in BINOPS:
            src = PRE + decl(lt, "a", 0) + "\n" + decl(rt, "b", 1) + "\nprint \"@run\"\n" + probe("a %s b" % op)
            out.append(("cell|%s|%s|%s" % (op, lt, rt), src))
        # `a ?= b` is an expression (a bool) AND a store into a: both as a probed value and as a statement followed by a probe of a
        out.append(("cell|?=-value|%s|%s" % (lt, rt), PRE + decl(lt, "a", 0) + "\n" + decl(rt, "b", 1) + "\nprint \"@run\"\n" + probe("a ?= b") + probe("a")))
        out.append(("cell|?=-statement|%s|%s" % (lt, rt), PRE + decl(lt, "a", 0) + "\n" + decl(rt, "b", 1) + "\nprint \"@run\"\na ?= b\n" + probe("a")))
        if lt != "fixed":
            for op in OPASSIGN:
                src = PRE + decl(lt, "a", 0) + "\n" + decl(rt, "b", 1) + "\nprint \"@run\"\na %s b\n" % op + probe("a")
                out.append(("cell|%s|%s|%s" % (op, lt, rt), src))
    for t in TYPES:
        out.append(("unary|-|%s" % t, PRE + decl(t, "a", 0) + "\nprint \"@run\"\n" + probe("-a")))
        out.append(("unary|!|%s" % t, PRE + decl(t, "a", 0) + "\nprint \"@run\"\n" + probe("!a")))
        out.append(("index0|%s" % t, PRE + decl(t, "a", 0) + "\nprint \"@run\"\n" + probe("a[0]")))
        out.append(("call|%s" % t, PRE + decl(t, "a", 0) + "\nprint \"@run\"\n" + probe("a()")))
        out.append(("cond|%s" % t, PRE + decl(t, "a", 0) + "\nprint \"@run\"\nif a {\n\tprint \"then\"\n}\n"))
        out.append(("loop-bound|%s" % t, PRE + decl(t, "a", 0) + "\nprint \"@run\"\nfrom 0 to a {\n}\nfrom 0 to 4 step a {\n\tbreak\n}\n"))
    # results that LEAVE the range of their static kind: the program may stop with the overflow the language defines - or print a
    # value, and then that value has the kind `typeof` says (the cells above use small witnesses and never get here)
    EDGE = {"byte": ("0b11001000", "0b1100100"), "int": ("2147483000", "2147483000"), "bigint": ("B170141183460469231731687303715884105000", "B170141183460469231731687303715884105000")}
    for kt, (x, y) in EDGE.items():
        for op in ("+", "-", "*", "<<"):
            for order in ((x, y), (y, x)):
                src = PRE + "a: %s = %s\nb: %s = %s\nprint \"@run\"\n" % (kt, order[0], kt, order[1]) + probe("a %s b" % op) + probe("b %s a" % op)
                out.append(("cat|edge-cell|%s|%s|%s" % (op, kt, order[0][:6]), src))
            for oa in ("+=", "-=", "*="):
                out.append(("cat|edge-cell|%s|%s" % (oa, kt), PRE + "a: %s = %s\nb: %s = %s\nprint \"@run\"\na %s b\n" % (kt, x, kt, y, oa) + probe("a")))
        out.append(("cat|edge-cell|neg|%s" % kt, PRE + "a: %s = %s\nprint \"@run\"\n" % (kt, x) + probe("0 - a - a") + probe("-a")))
        out.append(("cat|edge-cell|method|%s" % kt, PRE + "a: %s = %s\nprint \"@run\"\n" % (kt, x) + probe("a.pow(2)") + probe("a.abs()") + probe("(a + a).to_str()")))
    # values whose static type is spelled through an alias: every use that depends on the KIND of the type (index by position and by
    # key, element / entry write, call, member call, condition, loop bound, argument of a function typed with the alias or with the
    # type it stands for, either side of every operator against every other type)
    for t in ALIAS_TYPES:
        uses = ["-a", "!a", "a[0]", "a[7]", "a[\"k\"]", "a()", "a.len()", "a.n", "a.contains_key(\"k\")", "a.contains_key(0)", "a.push(1)", "a.to_str()", "get a", "(a) or 1", "a == a", "typeof a"]
        for u in uses:
            if u == "a[7]" and t != "alias-map-int-keys":
                continue          # (only that map holds a key 7: on a list or a string the index would be out of range, an allowed failure)
            out.append(("alias-use|%s|%s" % (u, t), PRE + decl(t, "a", 0) + "\nprint \"@run\"\n" + probe(u)))
        for w in ("a[0] = a[0]", "a[0] = 1", "a[0] = \"s\"", "a[\"k\"] = 1", "a[9] = \"s\"", "a[0] += 1", "a[\"k\"] += 1", "a.n = 2", "a += 1", "a = a"):
            if w == "a[9] = \"s\"" and t != "alias-map-int-keys":
                continue
            out.append(("alias-write|%s|%s" % (w, t), PRE + decl(t, "a", 0) + "\nprint \"@run\"\n" + w + "\n" + probe("a")))
        out.append(("alias-cond|%s" % t, PRE + decl(t, "a", 0) + "\nprint \"@run\"\nif a {\n\tprint \"then\"\n}\nwhile a {\n\tbreak\n}\n"))
        out.append(("alias-loop-bound|%s" % t, PRE + decl(t, "a", 0) + "\nprint \"@run\"\nfrom 0 to a {\n}\nfrom 0 to 4 step a {\n\tbreak\n}\n"))
        an = ALIAS_TYPES[t][0].split(": ")[1].split(" ")[0]
        base = ALIASES[an.rstrip("?")] if ALIASES[an.rstrip("?")] not in ALIASES else ALIASES[ALIASES[an.rstrip("?")]]
        base += "?" if an.endswith("?") else ""
        for pt in (an, base):
            out.append(("alias-argument|%s|%s" % (pt, t), PRE + decl(t, "a", 0) + "\ntk = fn(p: %s) -> %s {\n\treturn p\n}\nprint \"@run\"\n" % (pt, pt) + probe("tk(a)")))
        for rt in TYPES:
            for op in BINOPS:
                out.append(("alias-cell|%s|%s|%s" % (op, t, rt), PRE + decl(t, "a", 0) + "\n" + decl(rt, "b", 1) + "\nprint \"@run\"\n" + probe("a %s b" % op)))
                out.append(("alias-cell|%s|%s|%s" % (op, rt, t), PRE + decl(rt, "a", 0) + "\n" + decl(t, "b", 1) + "\nprint \"@run\"\n" + probe("a %s b" % op)))
        for op in OPASSIGN:
            out.append(("alias-cell|%s|%s|%s" % (op, t, t), PRE + decl(t, "a", 0) + "\n" + decl(t, "b", 1) + "\nprint \"@run\"\na %s b\n" % op + probe("a")))
    # from-loop counters: the counter's static type against the kind it holds in EVERY iteration (first one included)
    NUMS = {"int": ("1", "4", "1"), "bigint": ("B1", "B4", "B1"), "float": ("1.5", "4.5", "0.5"), "byte": ("0b1", "0b100", "0b1")}
    for sk, (lo, hi, _) in NUMS.items():
        for tk in [None] + list(NUMS):
            for form in ("to", "through"):
                head = "from a %s e%s, i {" % (form, "" if tk is None else " step st")
                src = PRE + "a: %s = %s\ne: %s = %s\n" % (sk, lo, sk, hi) + ("" if tk is None else "st: %s = %s\n" % (tk, NUMS[tk][2])) + \
                    "print \"@run\"\n" + head + "\n" + "".join("\t" + l + "\n" for l in probe("i").strip().split("\n")) + "}\n"
                out.append(("loop-counter|%s|%s|%s" % (sk, tk or "nostep", form), src))
                # the counter REUSES a variable of the start's kind (also an optional one): with a step of a wider kind the loop would
                # store values of another kind in it - the program must be rejected, or the probes must agree
                for decl_t in (sk, sk + "?"):
                    head2 = "from a %s e%s, cv {" % (form, "" if tk is None else " step st")
                    body = "".join("\t" + l + "\n" for l in probe("cv").strip().split("\n"))
                    src2 = PRE + "a: %s = %s\ne: %s = %s\n" % (sk, lo, sk, hi) + ("" if tk is None else "st: %s = %s\n" % (tk, NUMS[tk][2])) + \
                        "cv: %s = %s\nprint \"@run\"\n" % (decl_t, lo) + head2 + "\n" + body + "}\n" + probe("cv") + ("" if decl_t.endswith("?") else probe("cv + cv"))
                    out.append(("loop-counter-reuse|%s|%s|%s|%s" % (decl_t, tk or "nostep", form, sk), src2))
    # list and map built-ins: declared result type against the run-time kind, on containers whose key / value / element
    # kinds all differ (so a signature built from the wrong type parameter shows)
    COLL = "ms: map[str, int] = map[str, int] {\"k\": 1, \"j\": 2}\nmf: map[int, float] = map[int, float] {1: 1.5, 2: 2.5}\nmb: map[str, bool] = map[str, bool] {\"t\": true}\n" \
           "li: [int...] = [3, 4, 5]\nls: [str...] = [\"a\", \"b\"]\nlf: [float...] = [1.5, 2.5]\nlb: [bigint...] = [B7, B8]\n" \
           "i2s = fn(x: int) -> str {\n\treturn \"s\" + x\n}\ns2i = fn(x: str) -> int {\n\treturn x.len()\n}\nf2b = fn(x: float) -> bool {\n\treturn x > 2.0\n}\nisbig = fn(x: int) -> bool {\n\treturn x > 3\n}\n"
    exprs = ["ms.len()", "ms.contains_key(\"k\")", "ms[\"k\"]", "mf[1]", "mb[\"t\"]", "ms.replace(\"k\", 9)", "mf.replace(1, 9.5)", "mb.replace(\"t\", false)",
             "ms.remove(\"k\")", "mf.remove(1)", "mb.remove(\"t\")", "ms.remove(\"zz\")", "ms.keys()", "(ms.keys())[0]", "(mf.keys())[0]", "ms.values()", "(ms.values())[0]", "(mf.values())[0]",
             "(mb.values())[0]", "ms.pairs()", "(ms.pairs())[0]", "ms.clone()", "(ms.clone())[\"k\"]", "(mf.clone())[2]",
             "li.len()", "li[0]", "ls[0]", "lf[0]", "lb[0]", "li.remove(0)", "ls.remove(0)", "lf.remove(1)", "lb.remove(0)", "li.index_of(4)", "ls.index_of(\"b\")", "lf.index_of(2.5)",
             "li.clone()", "(li.clone())[0]", "(ls.clone())[0]", "li.reverse()", "li.join([9])", "(ls.join([\"z\"]))[2]", "li.map(i2s)", "(li.map(i2s))[0]", "(ls.map(s2i))[0]", "(lf.map(f2b))[0]",
             "li.filter(isbig)", "(li.filter(isbig))[0]", "li == [3, 4, 5]", "li + [1]", "(li + [1])[3]", "ls + [\"q\"]", "(ls + [\"q\"])[0]"]
    # unary operators applied DIRECTLY to an element / entry / field / call result / built-in result (operands that arrive as
    # references or wrapped optionals)
    exprs += ["-li[0]", "-lf[1]", "-lb[0]", "-mf[1]", "-ms[\"k\"]", "!(mb[\"t\"])", "-(li.remove(0))", "-(s2i(\"ab\"))", "-(get li.index_of(4))", "-(get \"12\".parse_int())",
              "-ko.n", "-(ko.n)", "!kb[0]", "!(f2b(2.5))", "-li[0] + li[1]", "li[0] - -li[1]", "-(-li[0])", "!(!kb[0])", "-(li[0] * 2)", "(-li[0]).abs()", "typeof -li[0]"]
    COLL2 = COLL + KCLASS + "ko = K()\nkb: [bool...] = [true, false]\n"
    for e in exprs:
        out.append(("coll|%s" % e, COLL2 + "print \"@run\"\n" + probe(e)))
    out += boolean_context_programs()
    return out


def boolean_context_programs():
    """a boolean that is NOT a plain variable - an element, an entry, a field, a field of an element, a call / method
    result, an unwrapped optional (operands that arrive as references to cells or wrapped values) - in every position
    that consumes a boolean: if, else-if, while, assert, either side of && and ||, !, ==, argument, return"""
    pre = ("class BK {\n\tok: bool\n\tconstructor(self) {\n\t\tself.ok = true\n\t}\n\tfn check(self) -> bool {\n\t\treturn self.ok\n\t}\n}\n"
           "kb: [bool...] = [true, false]\nmb: map[str, bool] = map[str, bool] {\"t\": true}\nbo = BK()\nlob: [BK...] = [BK()]\nkk: [[bool...]...] = [[true]]\n"
           "flagv = true\nisok = fn() -> bool {\n\treturn flagv\n}\noptb: bool? = true\ntt = true\nff = false\nzero = 0\n"
           "fb = fn(b: bool) -> str {\n\tif b {\n\t\treturn \"yes\"\n\t}\n\treturn \"no\"\n}\n")
    sources = [("element", "kb[0]", "kb[0] = false"), ("entry", "mb[\"t\"]", "mb[\"t\"] = false"), ("field", "bo.ok", "bo.ok = false"),
               ("field-of-element", "(lob[0]).ok", "t0 = lob[0]\n\tt0.ok = false"), ("nested-element", "kk[0][0]", "kk[0][0] = false"), ("call", "isok()", "flagv = false"),
               ("method", "bo.check()", "bo.ok = false"), ("get", "(get optb)", "optb = false"), ("or", "(optb or false)", "optb = false"), ("paren-element", "(kb[0])", "kb[0] = false")]
    out = []
    for sname, S, unset in sources:
        ctxs = {"if": "if %s {\n\tprint \"T\"\n} else {\n\tprint \"F\"\n}\n" % S,
                "else-if": "if zero == 1 {\n\tprint \"Z\"\n} else if %s {\n\tprint \"T\"\n} else {\n\tprint \"F\"\n}\n" % S,
                "while": "n = 0\nwhile %s {\n\tn = n + 1\n\t%s\n}\nprint n\n" % (S, unset),
                "while-and": "n = 0\nwhile %s && n < 3 {\n\tn = n + 1\n}\nprint n\n" % S,
                "while-and-right": "n = 0\nwhile n < 3 && %s {\n\tn = n + 1\n}\nprint n\n" % S,
                "assert": "assert %s\nprint \"held\"\n" % S,
                "and-left": probe("%s && tt" % S), "and-right": probe("tt && %s" % S), "or-left": probe("%s || ff" % S), "or-right": probe("ff || %s" % S),
                "and-both": probe("%s && %s" % (S, S)), "not": probe("!%s" % S), "eq": probe("%s == tt" % S), "neq-self": probe("%s != %s" % (S, S)),
                "argument": "print fb(%s)\n" % S, "return": "rf = fn() -> bool {\n\treturn %s\n}\n" % S + probe("rf()"),
                "if-after-unset": "if true {\n\t%s\n}\nif %s {\n\tprint \"T\"\n} else {\n\tprint \"F\"\n}\n" % (unset, S),
                "store-then-if": "sv = %s\nif sv {\n\tprint \"T\"\n}\n" % S}
        for cname, body in ctxs.items():
            out.append(("boolctx|%s|%s" % (sname, cname), pre + "print \"@run\"\n" + body))
    return out


DECLT = {"int": "int", "bigint": "bigint", "float": "float", "byte": "byte", "bool": "bool", "str": "str", "optint": "int?", "list": "[int...]"}


def position_programs():
    out = []
    for dt, dtext in DECLT.items():
        for st_ in TYPES:
            src_decl = PRE + decl(st_, "s", 0) + "\nprint \"@run\"\n"
            use = probe("x")
            more = ""
            if dt in ("int", "bigint", "float", "byte"):
                more = probe("x + x") + probe("x * 2")
            elif dt == "str":
                more = probe("x.len()")
            elif dt == "bool":
                more = probe("!x")
            elif dt == "list":
                more = probe("x.len()")
            out.append(("pos|init|%s|%s" % (dt, st_), src_decl + "x: %s = s\n" % dtext + use + more))
            out.append(("pos|reassign|%s|%s" % (dt, st_), PRE + decl(dt if dt in TYPES else "optint", "x", 1) + "\n" + decl(st_, "s", 0) + "\nprint \"@run\"\nx = s\n" + use + more))
            out.append(("pos|argument|%s|%s" % (dt, st_), src_decl + "f = fn(x: %s) -> int {\n%s\treturn 1\n}\nprint f(s)\n" % (dtext, "".join("\t" + l + "\n" for l in (use + more).strip().split("\n")))))
            out.append(("pos|return|%s|%s" % (dt, st_), src_decl + "f = fn() -> %s {\n\treturn s\n}\nx = f()\n" % dtext + use + more))
            if dt != "list":
                out.append(("pos|element|%s|%s" % (dt, st_), src_decl + "l: [%s...] = [s]\nx = l[0]\n" % dtext + use + more))
                out.append(("pos|push|%s|%s" % (dt, st_), src_decl + "l: [%s...] = []\nl.push(s)\nx = l[0]\n" % dtext + use + more))
                out.append(("pos|mapvalue|%s|%s" % (dt, st_), src_decl + "m = map[str, %s] {\"k\": s}\nx = m[\"k\"]\n" % dtext + use + more))
            out.append(("pos|field|%s|%s" % (dt, st_), src_decl + "class F {\n\tv: %s\n\tconstructor(self) {\n\t\tself.v = s\n\t}\n}\no = F()\nx = o.v\n" % dtext + use + more))
    return out


def catalogue():
    c = []
    c.append(("cat|opassign-on-captured", "state = 1\nbump = fn() -> int {\n\tstate += 1\n\treturn state\n}\nprint \"@run\"\nprint bump()\nprint state\n"))
    c.append(("cat|opassign-on-captured-in-factory", "mk = fn() -> fn() -> int {\n\tc = 0\n\treturn fn() -> int {\n\t\tc += 1\n\t\treturn c\n\t}\n}\nf = mk()\nprint \"@run\"\nprint f()\nprint f()\n"))
    c.append(("cat|narrowing-in-branch", "o: int? = nil\nflag = false\nif flag {\n\to = 5\n}\nprint \"@run\"\n" + probe("o") + "y = o + 1\nprint y\n"))
    c.append(("cat|narrowing-then-nil", "mk = fn() -> int? {\n\treturn nil\n}\no: int? = 4\no = 5\nprint \"@run\"\n" + probe("o")))
    c.append(("cat|optional-builtin-arith", "s = \"banana\"\nprint \"@run\"\n" + probe("s.index_of(\"n\")") + "x = s.index_of(\"n\") + 1\nprint x\n"))
    c.append(("cat|wide-int-literal", "x = 2147483648\nprint \"@run\"\n" + probe("x") + probe("x + 1")))
    c.append(("cat|wide-int-literal-annotated", "x: int = 2147483648\nprint \"@run\"\n" + probe("x")))
    c.append(("cat|neg-wide-literal", "x = -2147483648\nprint \"@run\"\n" + probe("x")))
    c.append(("cat|modify-own-variable-from-block", "a = 3\nprint \"@run\"\nif true {\n\tmodify a = 7\n}\n" + probe("a")))
    c.append(("cat|modify-function-local-from-block", "f = fn() -> int {\n\ta = 3\n\tif true {\n\t\tmodify a = 7\n\t}\n\treturn a\n}\nprint \"@run\"\n" + probe("f()")))
    c.append(("cat|modify-local-shadow-of-captured", "a = 5\nf = fn() -> int {\n\ta = 3\n\tfrom 0 to 2 {\n\t\tmodify a = 7\n\t}\n\treturn a\n}\nprint \"@run\"\n" + probe("f()") + probe("a")))
    c.append(("cat|modify-closure-local-from-block", "mk = fn() -> fn() -> int {\n\tc = 0\n\treturn fn() -> int {\n\t\tl = c\n\t\twhile l < 2 {\n\t\t\tmodify l = l + 1\n\t\t}\n\t\treturn l\n\t}\n}\ng = mk()\nprint \"@run\"\n" + probe("g()")))
    CH = "class Engine {\n\tpower: int\n\tconstructor(self, power: int) {\n\t\tself.power = power\n\t}\n\tfn boosted(self, k: int) -> int {\n\t\treturn self.power * k\n\t}\n\tfn me(self) -> Self {\n\t\treturn self\n\t}\n}\n" \
         "class Car {\n\tengine: Engine\n\tconstructor(self) {\n\t\tself.engine = Engine(3)\n\t}\n}\ncar = Car()\neng = Engine(4)\nprint \"@run\"\n"
    # a method taken off its object (rejected today; if it is ever accepted the value must be callable with the declared arity)
    for name, e in (("one-link", "eng.boosted"), ("two-links", "car.engine.boosted"), ("after-call", "eng.me().boosted"), ("three-links", "car.engine.me().boosted")):
        c.append(("cat|method-as-value-" + name, CH + "f = %s\n" % e + probe("f(2)")))
    c.append(("cat|method-chain-call", CH + probe("car.engine.boosted(2)") + probe("car.engine.me().boosted(2)") + probe("car.engine.me().power")))
    c.append(("cat|if-without-else-returns", "f = fn(a: int) -> int {\n\tif a > 0 {\n\t\treturn 1\n\t}\n}\nprint \"@run\"\n" + probe("f(0)")))
    c.append(("cat|else-if-without-else-returns", "f = fn(a: int) -> int {\n\tif a > 0 {\n\t\treturn 1\n\t} else if a < 0 {\n\t\treturn 2\n\t}\n}\nprint \"@run\"\n" + probe("f(0)")))
    c.append(("cat|loop-only-return", "f = fn(a: int) -> int {\n\tfrom 0 to a {\n\t\treturn 1\n\t}\n}\nprint \"@run\"\n" + probe("f(0)")))
    c.append(("cat|while-only-return", "f = fn(a: int) -> int {\n\twhile a > 0 {\n\t\treturn 1\n\t}\n}\nprint \"@run\"\n" + probe("f(0)")))
    # return analysis behind loops that may be left early (continue / break in front of the return), in a final else
    c.append(("cat|while-continue-then-return", "f = fn(a: int) -> int {\n\tn = 0\n\twhile n < a {\n\t\tn = n + 1\n\t\tif n > 0 {\n\t\t\tcontinue\n\t\t}\n\t\treturn 1\n\t}\n}\nprint \"@run\"\n" + probe("f(2)")))
    c.append(("cat|while-all-branches-return", "f = fn(a: int) -> int {\n\twhile a > 0 {\n\t\tif a > 1 {\n\t\t\treturn 1\n\t\t} else {\n\t\t\treturn 2\n\t\t}\n\t}\n}\nprint \"@run\"\n" + probe("f(0)")))
    c.append(("cat|else-ends-in-while", "f = fn(a: int) -> int {\n\tif a > 5 {\n\t\treturn 1\n\t} else {\n\t\twhile a > 0 {\n\t\t\treturn 2\n\t\t}\n\t}\n}\nprint \"@run\"\n" + probe("f(0)")))
    # unpacking into ONE name; a field that holds a function; names of class aliases; lists whose element types only chain
    c.append(("cat|single-name-unpack", "xs: [int...] = [7, 8]\nif true {\n}\n[a,] = xs\nprint \"@run\"\n" + probe("a") + probe("a + 1")))
    c.append(("cat|single-name-unpack-no-comma", "xs: [str...] = [\"p\", \"q\"]\nif true {\n}\n[a] = xs\nprint \"@run\"\n" + probe("a") + probe("a.len()")))
    c.append(("cat|single-name-unpack-in-function", "f = fn(ys: [int...]) -> int {\n\tif true {\n\t}\n\t[q] = ys\n\treturn q * 2\n}\nprint \"@run\"\n" + probe("f([4, 5])")))
    FH = ("class H {\n\tcb: fn(int) -> int\n\tn: int\n\tconstructor(self, cb: fn(int) -> int) {\n\t\tself.cb = cb\n\t\tself.n = 3\n\t}\n\tfn run(self, v: int) -> int {\n\t\treturn self.cb(v) + self.n\n\t}\n}\n"
          "k = 100\nh = H(fn(x: int) -> int {\n\treturn x * 2 + k\n})\nhs: [H...] = [h]\nprint \"@run\"\n")
    c.append(("cat|function-typed-field-call", FH + probe("h.cb(21)") + probe("h.run(1)") + probe("(hs[0]).cb(5)") + "g = h.cb\n" + probe("g(4)")))
    DOG = "class Dog {\n\tfn bark(self) -> str {\n\t\treturn \"woof\"\n\t}\n}\n"
    c.append(("cat|class-alias-named-like-outer-variable", DOG + "x = 5\nprint \"@run\"\nif true {\n\ttype x Dog\n" + probe("x").replace("print", "\tprint") + "\td: Dog = x\n\tprint d.bark()\n}\n"))
    c.append(("cat|class-alias-named-like-parameter", DOG + "f = fn(x: int) -> int {\n\tif x > 0 {\n\t\ttype x Dog\n\t\td: Dog = x\n\t\tprint d.bark()\n\t}\n\treturn x\n}\nprint \"@run\"\n" + probe("f(1)")))
    c.append(("cat|class-alias-as-value", DOG + "type Pup Dog\nprint \"@run\"\nq = Pup\n" + probe("q")))
    c.append(("cat|mixed-list-neighbours-compatible", "a: int? = 5\nc: str? = \"hello\"\nconst xs = [a, nil, c]\nprint \"@run\"\nv = xs.remove(2)\n" + probe("v") + "w = (get v) + 1\n" + probe("w")))
    c.append(("cat|mixed-list-neighbours-compatible-index-of", "a: int? = 5\nc: str? = \"hello\"\nconst xs = [a, nil, c]\nprint \"@run\"\n" + probe("xs.index_of(a)") + probe("xs.filter(fn(e: int?) -> bool {\n\treturn true\n})")))
    c.append(("cat|untyped-empty-list-two-element-types", "const e = []\nf = fn(xs: [str...]) {\n\txs.push(\"a\")\n}\ng = fn(xs: [int...]) -> int {\n\treturn xs[0] * 2\n}\nf(e)\nprint \"@run\"\n" + probe("g(e)")))
    c.append(("cat|untyped-nested-empty-list", "const e = [[]]\nf = fn(xs: [[str...]...]) {\n\t(xs[0]).push(\"a\")\n}\ng = fn(xs: [[int...]...]) -> int {\n\treturn (xs[0])[0] * 2\n}\nf(e)\nprint \"@run\"\n" + probe("g(e)")))
    NODE = "export class Node {\n\tvalue: int\n\tnext: Self?\n\tconstructor(self, value: int, next: Self?) {\n\t\tself.value = value\n\t\tself.next = next\n\t}\n\tfn next_value(self) -> int {\n\t\tn = get self.next\n\t\treturn n.value\n\t}\n}\n"
    c.append(("cat|self-parameter-of-imported-class-gets-caller", "import Node from lib\nclass Wrapper {\n\tfn make(self) -> Node {\n\t\treturn Node(1, self)\n\t}\n}\nw = Wrapper()\nn = w.make()\nprint \"@run\"\n" + probe("n.next_value()"), {"lib.ms": NODE}))
    c.append(("cat|self-parameter-of-imported-class-gets-instance", "import Node from lib\nclass Wrapper {\n\tfn make(self) -> Node {\n\t\ta = Node(1, nil)\n\t\treturn Node(2, a)\n\t}\n}\nw = Wrapper()\nn = w.make()\nprint \"@run\"\n" + probe("n.next_value()"), {"lib.ms": NODE}))
    c.append(("cat|unpack-of-untyped-empty-list", "const [a, b] = [[], [1]]\nf = fn(p: [str...]) {\n\tp.push(\"s\")\n}\ng = fn(q: [int...]) -> int {\n\treturn q[0] + 1\n}\nf(a)\nprint \"@run\"\n" + probe("g(a)")))
    c.append(("cat|call-of-object-field", "class A {\n\tn: int\n\tconstructor(self) {\n\t\tself.n = 1\n\t}\n}\nclass H {\n\ta: A\n\tconstructor(self) {\n\t\tself.a = A()\n\t}\n}\nh = H()\nprint \"@run\"\nx = h.a()\n" + probe("x.n")))
    SL = ("class A {\n\tx: int\n\tconstructor(self) {\n\t\tself.x = 1\n\t}\n\tfn all(self) -> [Self...] {\n\t\treturn [self]\n\t}\n\tfn maybe(self) -> Self? {\n\t\treturn self\n\t}\n\tfn table(self) -> map[str, Self] {\n\t\treturn map[str, Self] {\"k\": self}\n\t}\n}\n")
    for nm, e in (("list", "(a.all())[0]"), ("optional", "get a.maybe()"), ("map", "get (a.table())[\"k\"]")):
        c.append(("cat|self-nested-in-result-used-in-other-class:" + nm, SL + "class B {\n\tx: str\n\tconstructor(self) {\n\t\tself.x = \"s\"\n\t}\n\tfn t(self, a: A) -> str {\n\t\tq = %s\n\t\treturn q.x\n\t}\n}\na = A()\nb = B()\nprint \"@run\"\n" % e + probe("b.t(a)")))
    for place, wrap in (("module", "%s"), ("function", "f = fn() -> int {\n\treturn %s\n}\n"), ("closure-in-function", "mk = fn() -> fn() -> int {\n\tc: int? = nil\n\treturn fn() -> int {\n\t\treturn (c) or %s\n\t}\n}\nf = mk()\n")):
        body = {"module": "r = (a) or b\n", "function": wrap % "(a) or b", "closure-in-function": wrap % "((a) or b)"}[place]
        c.append(("cat|or-with-optional-fallback-of-captured-operand:" + place, "a: int? = nil\nb: int? = nil\n" + body + "print \"@run\"\n" + (probe("r") if place == "module" else probe("f()"))))
    for nm, decl_, use in (("argument", "take = fn(p: [str, int]) -> int {\n\treturn p[1]\n}\n", "take(%s)"), ("return", "mk = fn() -> [str, int] {\n\treturn %s\n}\n", None),
                           ("initializer", "", None)):
        for lst, init in (("[str...]", "[\"ab\", \"cy\"]"), ("[int...]", "[4, 5]")):
            head = "xs: %s = %s\n" % (lst, init)
            if nm == "argument":
                body = decl_ + "print \"@run\"\n" + probe(use % "xs")
            elif nm == "return":
                body = decl_ % "xs" + "const pr = mk()\nprint \"@run\"\n" + probe("pr[0]") + probe("pr[1]")
            else:
                body = "const pr: [str, int] = xs\nprint \"@run\"\n" + probe("pr[0]") + probe("pr[1]")
            c.append(("cat|open-list-into-heterogeneous-fixed-list:%s:%s" % (nm, lst), head + body))
    # the same with a fixed shape that has an OPTIONAL slot (the comparison of such a slot with the list's element type depends on the
    # type check flags, so it takes another path through the type comparison than plain slots do)
    for fixed_t, slots in (("[str?, int]", ("str", "int")), ("[int?, str]", ("int", "str")), ("[int, str?]", ("int", "str")), ("[str?, int?]", ("str", "int"))):
        for lst, init in (("[str...]", "[\"ab\", \"cy\"]"), ("[int...]", "[4, 5]")):
            head = "xs: %s = %s\n" % (lst, init)
            probes = "".join(probe("pr[%d]" % i) for i in range(2)) + "".join(probe(("((pr[%d]) or \"z\").len()" if sl == "str" else "((pr[%d]) or 0) + 1") % i) if "?" in fixed_t.strip("[]").split(", ")[i] else probe(("(pr[%d]).len()" if sl == "str" else "pr[%d] + 1") % i) for i, sl in enumerate(slots))
            c.append(("cat|open-list-into-fixed-list-with-optional-slot:argument:%s:%s" % (fixed_t, lst), head + "take = fn(pr: %s) -> int {\n%s\treturn 1\n}\nprint \"@run\"\n" % (fixed_t, "".join("\t" + l + "\n" for l in probes.strip().split("\n"))) + probe("take(xs)")))
            c.append(("cat|open-list-into-fixed-list-with-optional-slot:initializer:%s:%s" % (fixed_t, lst), head + "const pr: %s = xs\nprint \"@run\"\n" % fixed_t + probes))
            c.append(("cat|open-list-into-fixed-list-with-optional-slot:return:%s:%s" % (fixed_t, lst), head + "mk = fn() -> %s {\n\treturn xs\n}\nconst pr = mk()\nprint \"@run\"\n" % fixed_t + probes))
    c.append(("cat|empty-list-type-annotation", "strs: [str...] = [\"a\"]\nlaunder = fn(e: []) -> [] {\n\treturn e\n}\nints: [int...] = launder(strs)\nprint \"@run\"\n" + probe("ints[0]") + probe("ints[0] - 1")))
    c.append(("cat|list-of-nil-two-element-types", "const e = [nil]\na: [int?...] = e\nb: [str?...] = e\na.push(5)\nprint \"@run\"\nv = get b[1]\n" + probe("v") + probe("v.len()")))
    c.append(("cat|void-call-as-list-element", "g = fn() {\n}\nprint \"@run\"\nconst l = [g()]\n" + probe("l.len()") + "print l\n"))
    c.append(("cat|void-call-as-value", "f = fn() {\n}\nprint \"@run\"\nx = f()\nprint x\n"))
    c.append(("cat|map-missing-key-arith", "m = map[str, int] {\"a\": 1}\nprint \"@run\"\n" + probe("m[\"zz\"]") + "y = m[\"zz\"] + 1\nprint y\n"))
    c.append(("cat|list-of-optional-arith", "l: [int?...] = [1, nil]\nprint \"@run\"\nx = l[0] + 1\nprint x\n"))
    c.append(("cat|fixed-list-index-types", "const t = [1, \"a\", true]\nprint \"@run\"\n" + probe("t[0]") + probe("t[1]") + probe("t[2]")))
    c.append(("cat|fixed-list-var-index", "const t = [1, \"a\", true]\ni = 1\nprint \"@run\"\n" + probe("t[i]")))
    c.append(("cat|alias-arith", "type Num int\nx: Num = 5\nprint \"@run\"\n" + probe("x") + probe("x + 1") + probe("x * 2.5")))
    c.append(("cat|class-field-uninitialised", "class F {\n\tv: int\n}\no = F()\nprint \"@run\"\n" + probe("o.v") + "y = o.v + 1\nprint y\n"))
    c.append(("cat|method-on-optional-field", "class F {\n\tv: str?\n\tconstructor(self) {\n\t\tself.v = nil\n\t}\n}\no = F()\nprint \"@run\"\n" + probe("o.v")))
    c.append(("cat|self-recursion-arg", "f = fn(a: int) -> int {\n\tif a <= 0 {\n\t\treturn 0\n\t}\n\treturn self(a - 1)\n}\nprint \"@run\"\n" + probe("f(2)")))
    c.append(("cat|closure-captures-loop-counter", "fs: [fn() -> int...] = []\nfrom 0 to 2, i {\n\tfs.push(fn() -> int {\n\t\treturn i\n\t})\n}\nprint \"@run\"\ng = fs[0]\n" + probe("g()")))
    c.append(("cat|function-value-compare", "f = fn() -> int {\n\treturn 1\n}\ng = f\nprint \"@run\"\n" + probe("f == g") + probe("f is g")))
    c.append(("cat|str-index", "s = \"abc\"\ni = 1\nprint \"@run\"\n" + probe("s[i]") + probe("s[i] + s[0]")))
    c.append(("cat|int-float-compare", "a = 1\nb = 1.5\nprint \"@run\"\n" + probe("a < b") + probe("a == b")))
    c.append(("cat|optional-compare", "a: int? = 5\nb: int? = nil\nprint \"@run\"\n" + probe("a == b") + probe("a == 5") + probe("b == nil")))
    c.append(("cat|optional-ordering", "a: int? = 5\nprint \"@run\"\n" + probe("a < 7")))
    c.append(("cat|unwrap-assign-different-type", "a: int? = nil\ns: str? = \"x\"\nprint \"@run\"\nprint a ?= s\n" + probe("a")))
    c.append(("cat|or-with-optional-fallback", "a: int? = nil\nb: int? = nil\nprint \"@run\"\n" + probe("(a) or b")))
    c.append(("cat|nested-list", "l: [[int...]...] = [[1], [2]]\nprint \"@run\"\n" + probe("l[0]") + probe("(l[0])[0]")))
    c.append(("cat|map-of-list", "m = map[str, [int...]] {\"a\": [1]}\nprint \"@run\"\n" + probe("m[\"a\"]")))
    c.append(("cat|list-map-result-type", "l: [int...] = [1, 2]\nf = fn(v: int) -> str {\n\treturn \"s\" + v\n}\nprint \"@run\"\n" + probe("l.map(f)") + "r = l.map(f)\n" + probe("r[0]")))
    c.append(("cat|list-filter-result-type", "l: [int...] = [1, 2]\nf = fn(v: int) -> bool {\n\treturn v > 1\n}\nprint \"@run\"\n" + probe("l.filter(f)")))
    c.append(("cat|list-concat", "a: [int...] = [1]\nb: [str...] = [\"x\"]\nprint \"@run\"\n" + probe("a + b") + "c = a + b\nd = c[1] + 1\nprint d\n"))
    c.append(("cat|list-join-mismatch", "a: [int...] = [1]\nb: [str...] = [\"x\"]\nprint \"@run\"\nc = a.join(b)\nd = c[1] + 1\nprint d\n"))
    # an unpack whose EARLIER name already exists with another type (the last name is new): the old type stays observable through a
    # function defined before
    for nm, pre_, unp in (("first-of-two", "label = \"total\"\n", "[label, count] = [3, 4]"), ("first-of-three", "label = \"total\"\n", "[label, count, rest] = [3, 4, 5]"),
                          ("middle-of-three", "label = \"total\"\n", "[count, label, rest] = [3, 4, 5]"), ("two-existing-then-new", "label = \"total\"\nflag = true\n", "[label, flag, rest] = [3, 4, 5]")):
        c.append(("cat|unpack-retypes-existing-name:" + nm, pre_ + "describe = fn() -> str {\n\treturn label\n}\nprint \"@run\"\n" + unp + "\n" + probe("label") + probe("describe()") + probe("(describe()).len()")))
        c.append(("cat|unpack-retypes-existing-name-in-function:" + nm, "run = fn() -> int {\n" + "".join("\t" + l + "\n" for l in (pre_ + "describe = fn() -> str {\n\treturn label\n}\n" + unp + "\n" + probe("(describe()).len()")).strip().split("\n")) + "\treturn 1\n}\nprint \"@run\"\n" + probe("run()")))
    # a function that must yield a value ends in an `if` whose condition the compiler can compute: only a condition that is TRUE makes
    # the branch a return on every path
    for nm, cond in (("false", "false"), ("not-true", "!true"), ("folded-comparison", "1 > 2"), ("folded-and", "true && false"), ("true", "true"), ("not-false", "!false")):
        for shape, body in (("plain", "if %s {\n\t\treturn 42\n\t}" % cond), ("after-statement", "print \"in\"\n\tif %s {\n\t\treturn 42\n\t}" % cond),
                            ("else-without-return", "if %s {\n\t\treturn 42\n\t} else {\n\t\tprint \"no\"\n\t}" % cond),
                            ("nested", "if g > 0 {\n\t\tif %s {\n\t\t\treturn 42\n\t\t}\n\t} else {\n\t\treturn 1\n\t}" % cond)):
            c.append(("cat|constant-condition-hides-missing-return:%s:%s" % (nm, shape), "g = 1\nf = fn() -> int {\n\t%s\n}\nprint \"@run\"\n" % body + probe("f()") + probe("f() + 1")))
    c.append(("cat|push-wrong-through-alias", "a: [int...] = [1]\nb = a\nprint \"@run\"\nb.push(\"x\")\nd = a[1] + 1\nprint d\n"))
    c.append(("cat|index-of-mismatch", "a: [int...] = [1]\nprint \"@run\"\n" + probe("a.index_of(\"x\")")))
    c.append(("cat|export-type-mismatch", "import v from lib\nprint \"@run\"\n" + probe("v") + probe("v + 1"), {"lib.ms": "export v: int = 5\n"}))
    c.append(("cat|import-fn-type", "import f from lib\nprint \"@run\"\n" + probe("f(2)") + probe("f(2) + 1"), {"lib.ms": "export f: fn(int) -> int = fn(a: int) -> int {\n\treturn a\n}\n"}))
    # two modules each export a class with ONE name and the same member names, but other member types: an object of one must
    # not pass for the other (if the program is accepted, the probes show a field whose kind contradicts its static type)
    ga = ("export class Pt {\n\tx: int\n\tconstructor(self, x: int) {\n\t\tself.x = x\n\t}\n\tfn val(self) -> int {\n\t\treturn self.x\n\t}\n}\n"
          "export usept: fn(Pt) -> int = fn(p: Pt) -> int {\n\tprint \"@probe\"\n\tprint typeof (p.x)\n\tprint (p.x)\n\tprint \"@probe\"\n\tprint typeof (p.val())\n\tprint (p.val())\n\treturn p.x + 1\n}\n")
    gb = ("export class Pt {\n\tx: str\n\tconstructor(self, x: str) {\n\t\tself.x = x\n\t}\n\tfn val(self) -> str {\n\t\treturn self.x\n\t}\n}\n"
          "export mkpt: fn() -> Pt = fn() -> Pt {\n\treturn Pt(\"left\")\n}\n")
    two = {"ga.ms": ga, "gb.ms": gb}
    c.append(("cat|same-named-classes-of-two-modules|argument", "import ga\nimport gb\nprint \"@run\"\nprint ga.usept(gb.mkpt())\n", two))
    c.append(("cat|same-named-classes-of-two-modules|declaration", "import Pt from ga\nimport gb\nprint \"@run\"\nq: Pt = gb.mkpt()\n" + probe("q.x") + probe("q.x + 1") + probe("q.val()"), two))
    c.append(("cat|same-named-classes-of-two-modules|push", "import Pt from ga\nimport gb\nprint \"@run\"\nl: [Pt...] = [Pt(1)]\nl.push(gb.mkpt())\ne = l[1]\n" + probe("e.x") + probe("e.x + 1"), two))
    c.append(("cat|same-named-classes-of-two-modules|reassign", "import Pt from ga\nimport gb\nprint \"@run\"\nq = Pt(1)\nq = gb.mkpt()\n" + probe("q.x") + probe("q.x + 1"), two))
    c.append(("cat|same-named-class-in-main-and-module", "import gb\nclass Pt {\n\tx: int\n\tconstructor(self, x: int) {\n\t\tself.x = x\n\t}\n\tfn val(self) -> int {\n\t\treturn self.x\n\t}\n}\n"
              "takes = fn(p: Pt) -> int {\n" + "".join("\t" + l + "\n" for l in (probe("p.x") + probe("p.val()")).strip().split("\n")) + "\treturn p.x + 1\n}\nprint \"@run\"\nprint takes(gb.mkpt())\n", {"gb.ms": gb}))
    # integer literals that do not fit an int, as operands next to run-time values (nothing to fold)
    c.append(("cat|wide-literal-operand", "x: int = 5\nb: bigint = B7\nprint \"@run\"\n" + probe("x + 3000000000") + probe("3000000000") + probe("x * 4000000000") + probe("0xFFFFFFFF") +
              probe("b + 2147483648") + probe("x - 2147483648") + probe("x < 2147483648") + probe("2147483647") + probe("x + 2147483647")))
    c.append(("cat|wide-literal-stored", "print \"@run\"\ny = 2147483648\n" + probe("y") + probe("y + 1") + "l = [3000000000]\n" + probe("l[0]") + "m = map[str, bigint] {\"k\": 3000000000}\n" + probe("m[\"k\"]")))
    # a method and a field of one class with one name (either order): if accepted, the call / the read must match the static type
    c.append(("cat|member-name-used-twice|method-first", "class A2 {\n\tfn v(self) -> str {\n\t\treturn \"m\"\n\t}\n\tv: int\n\tconstructor(self) {\n\t}\n}\na2 = A2()\nprint \"@run\"\n" + probe("a2.v()")))
    c.append(("cat|member-name-used-twice|field-first", "class A3 {\n\tv: int\n\tfn v(self) -> str {\n\t\treturn \"m\"\n\t}\n\tconstructor(self) {\n\t\tself.v = 1\n\t}\n}\na3 = A3()\nprint \"@run\"\n" + probe("a3.v")))
    c.append(("cat|generic-result-with-optional", "xs: [int...] = [1, 2]\nfo = fn(x: int) -> int? {\n\treturn nil\n}\nprint \"@run\"\nys: [int...] = xs.map(fo)\n" + probe("ys[0]") + "zs = xs.map(fo)\nws: [int...] = zs\n" + probe("ws[0]")))
    c.append(("cat|export-declared-type-differs", "import f from lib\nprint \"@run\"\n" + probe("f(2)"), {"lib.ms": "export f: fn(int) -> str = fn(a: int) -> int {\n\treturn a\n}\n"}))
    return c


def builtin_programs():
    from . import c14
    out = []
    calls = c14.str_calls(["ab", "hello world"], False) + c14.num_calls("quick")
    seen = set()
    for c in calls:
        if c14.model(c)[0] == "fail":
            continue
        key = (c[0], "str" if isinstance(c[1], str) else c[1].k)
        n = sum(1 for k in seen if k[:2] == key)
        if n >= 3:
            continue
        seen.add(key + (len(seen),))
        lines = c14.recv_decl("r0", c[1], c)
        expr = c14.call_src("r0", c[0], c[2])
        out.append(("builtin|%s|%s" % key, "\n".join(lines) + "\nprint \"@run\"\n" + probe(expr)))
    return out


def check(case):
    if case.get("family") == "random":
        files = case["files"]
        sc = make_scenario(files["main.ms"], no_failure_expected=False, files={k: v for k, v in files.items() if k != "main.ms"})
        res, fails, _ = scenario.execute(sc)
        r = CaseResult(nt_keys=[], labels=["family=random:" + case["gen"]], sample={"family": case["gen"]})
        if "Did not compile" in res["run"].stderr:
            r.rejected = True
        if fails:
            r.failure = fail("%s program: %s\n%s" % (case["gen"], "; ".join(fails), files["main.ms"][-1500:]), "C02:random:%s" % fails[0].split(":")[0], sc, case={"gen": case["gen"]})
        return r
    name, src = case["name"], case["src"]
    # in the matrices the witness values rule out every allowed dynamic failure; catalogue programs may legitimately use nil
    sc = make_scenario(src, not name.startswith("cat|"), case.get("files"))
    res, fails, _ = scenario.execute(sc)
    run = res["run"]
    rejected = "Did not compile" in run.stderr
    parts = name.split("|")
    mixed = len(parts) >= 4 and parts[-1] != parts[-2]
    through = any(p in ("optint", "optint-builtin", "optstr-builtin", "list", "fixed", "map", "fn", "obj") for p in parts[2:]) or parts[0] in ("cat", "builtin")
    r = CaseResult(nt_keys=[name] if (not rejected and (mixed or through)) else [], labels=["family=" + parts[0], "verdict=" + ("rejected" if rejected else "accepted")],
                   sample={"cell": name, "verdict": "rejected" if rejected else "accepted", "program_tail": src[-220:]})
    if name.startswith("cat|") and rejected and re.search(r"^\s*= expected [a-z_]", run.stdout, re.M) and not case.get("syntax_error_intended"):
        # a catalogue program that does not even PARSE tests nothing (this grammar takes one postfix per atom, newlines do not end
        # statements ...): harness problem, not a verdict
        r.failure = fail("catalogue program is a syntax error: harness problem, not a violation\n%s\n%s" % (src[-500:], run.stdout[-300:]), "C02:catalogue-syntax", sc, case={"cell": name})
        r.failure["inconclusive"] = True
        return r
    if name.startswith("control|") and (rejected or run.klass != "ok"):
        # the shared prelude (class, helper, aliases) plus one declaration of every operand type must compile and run: if it does
        # not, every cell is "rejected" for a reason that has nothing to do with its operator, and the matrix would be vacuous
        r.failure = fail("control program was not accepted and run: harness problem, not a violation\n%s\n%s" % (src[-600:], run.stdout[-400:]), "C02:control", sc, case={"cell": name})
        r.failure["inconclusive"] = True
        return r
    if fails:
        sym = fails[0].split(":")[0]
        r.failure = fail("%s: %s\n%s" % (name, "; ".join(fails), src[-700:]), "C02:%s:%s" % (sym, name), sc, case={"cell": name})
    return r


def control_programs():
    out = [("control|prelude", PRE + "print \"@run\"\n" + probe("1 + 1"))]
    for t in list(TYPES) + list(ALIAS_TYPES):
        out.append(("control|declaration|%s" % t, PRE + decl(t, "a", 0) + "\n" + decl(t, "b", 1) + "\nprint \"@run\"\n" + probe("1 + 1")))
    return out


def enumerated(tier, seed):
    cases = [{"name": n, "src": s} for n, s in control_programs() + cell_programs() + position_programs() + builtin_programs()]
    for item in catalogue():
        cases.append({"name": item[0], "src": item[1], "files": item[2] if len(item) > 2 else None})
    return cases


def strategy(tier):
    from . import c04
    return c04.strategy(tier).map(lambda c: {"family": "random", "gen": c["family"], "files": c["files"]})


def n_random(tier):
    return 1600 if tier == "quick" else 60000
