"""C05 — numeric operators: exact value, promoted kind, or failure."""
import math
from hypothesis import strategies as st
from ..engine import CaseResult, fail
from .. import scenario, num
from ..num import Num, Fail

ID = "C05"
LEVEL = "exploration"
RULE = ("evaluation = one (operator, left operand, right operand) triple - the operator written as an expression `a op b` or, for + - * / % where the result keeps the left kind, as the op-assignment `t op= b` on a variable / a list element / an object field (stored, and USED AS A VALUE: `r = t op= b` on a variable / element / field / map entry / a variable captured by an escaped closure next to a same-named module variable) - whose operands reach the operator through "
        "run-time variables; enumerated part = every operator (+ - * / % < <= > >= == != on the 16 kind pairs, & | xor << >> "
        "on the 9 non-float pairs, unary - and !) x ALL pairs of the boundary-value set of each kind, plus every comparison of an integer with the doubles 0, 1 and 2 ulps (and 0.5) on either side of it in both operand orders; random part = "
        "Hypothesis operands. Oracle = exact arithmetic in Python ints / IEEE doubles + the statement's promotion table; "
        "printed text AND run-time kind (typed-print hook) must match, or the run must stop with a failure where the exact "
        "result is undefined/unrepresentable. Non-trivial = an operand is an extreme of its kind, or the kinds differ, or the "
        "model prescribes a failure; distinct by (op, kinds, operand values)")
ASSUMPTIONS = ["dev-profile build (integer overflow checks on), as the repository's tests and CI use",
               "MIN % -1 (quotient not representable): value 0 or failure are both accepted",
               "NaN/inf results follow IEEE-754 and print as Rust prints them"]
EXHAUSTIVE = {"quick": True, "thorough": True}
ENV = {"MSCRIPT_VERIF_TYPED_PRINT": "1"}

ARITH = ["+", "-", "*", "/", "%"]
CMP = ["<", "<=", ">", ">=", "==", "!="]
BIT = ["&", "|", "xor", "<<", ">>"]


def model(op, a, b):
    """-> ("val", text) or ("fail", reason)."""
    try:
        if op in ARITH:
            r = num.arith(op, a, b)
        elif op in CMP:
            return ("val", "bool:" + ("true" if num.compare(op, a, b) else "false"))
        elif op in BIT:
            r = num.bitop(op, a, b)
        elif op == "neg":
            r = num.neg(a)
        else:
            raise ValueError(op)
        return ("val", "%s:%s" % (r.k, num.fmt(r)))
    except Fail as f:
        return ("fail", f.reason)


HOLDERS = "".join("class H%s {\n\tv: %s\n\tconstructor(self, v: %s) {\n\t\tself.v = v\n\t}\n}\n" % (k, k, k) for k in ("int", "bigint", "float", "byte")) + \
    "".join("class HO%s {\n\tv: %s?\n\tconstructor(self, v: %s?) {\n\t\tself.v = v\n\t}\n}\n" % (k, k, k) for k in ("int", "bigint", "float", "byte"))
WRAPPED = ("wrapped-elem", "wrapped-field", "wrapped-entry", "wrapped-var")
FORMS = ("expr", "var", "elem", "field", "var-value", "elem-value", "field-value", "entry-value", "captured-value")


def pair_src(i, op, a, b, form="expr"):
    """Source lines and expected operand lines for one evaluation. form: the operator as an expression `a op b`, or as the
    op-assignment `t op= b` on a variable / a list element / an object field holding a"""
    an, bn = "a%d" % i, "b%d" % i
    if form.startswith("wrapped-"):
        # the RIGHT operand is a present optional produced by a built-in (parse_*), read straight from a list element / an
        # object field / a map entry / a variable: the operator sees a reference to a cell that holds a wrapped value
        text = num.fmt(b) if b.k != "byte" else "0b" + bin(b.v)[2:]
        parse = {"int": "parse_int", "bigint": "parse_bigint", "float": "parse_float", "byte": "parse_byte"}[b.k]
        lines = ['print "@%d"' % i] + num.init_stmts(an, a) + ["print " + an, "ws%d = \"%s\"" % (i, text)]
        exp = ["str:@%d" % i, "%s:%s" % (a.k, num.fmt(a))]
        if form == "wrapped-elem":
            lines += ["wl%d: [%s?...] = [ws%d.%s()]" % (i, b.k, i, parse), "print %s %s wl%d[0]" % (an, op, i)]
        elif form == "wrapped-field":
            lines += ["wh%d = HO%s(ws%d.%s())" % (i, b.k, i, parse), "print %s %s wh%d.v" % (an, op, i)]
        elif form == "wrapped-entry":
            lines += ["wm%d = map[str, %s?] {\"k\": ws%d.%s()}" % (i, b.k, i, parse), "print %s %s wm%d[\"k\"]" % (an, op, i)]
        else:
            lines += ["wv%d = ws%d.%s()" % (i, i, parse), "print %s %s wv%d" % (an, op, i)]
        return lines, exp
    if form in ("lit-right", "lit-left"):
        # ONE operand is written as a literal next to the operator, the other arrives through a variable: whatever the compiler
        # does with an operator it can half-see (neutral elements, strength reduction) must keep value and kind
        lines = ['print "@%d"' % i] + num.init_stmts(an, a) + ["print " + an] + num.init_stmts(bn, b) + ["print " + bn]
        exp = ["str:@%d" % i, "%s:%s" % (a.k, num.fmt(a)), "%s:%s" % (b.k, num.fmt(b))]
        lines.append("print %s %s %s" % ((an, op, num.literal(b)) if form == "lit-right" else (num.literal(a), op, bn)))
        return lines, exp
    if form != "expr":
        lines = ['print "@%d"' % i] + num.init_stmts(an, a) + ["print " + an] + num.init_stmts(bn, b) + ["print " + bn]
        exp = ["str:@%d" % i, "%s:%s" % (a.k, num.fmt(a)), "%s:%s" % (b.k, num.fmt(b))]
        if form.endswith("-value"):
            # the op-assignment USED AS A VALUE: it yields the result it stored (same kind, same value)
            if form == "captured-value":
                # the target is a variable CAPTURED by a closure that outlived its factory; the module owns a variable of the same name
                lines += ["mk%d = fn(s: %s) -> fn(%s) -> %s {" % (i, a.k, b.k, a.k), "\tcapt%d = s" % i, "\treturn fn(d: %s) -> %s {" % (b.k, a.k),
                          "\t\tcapt%d %s= d" % (i, op), "\t\treturn capt%d" % i, "\t}", "}", "cl%d = mk%d(%s)" % (i, i, an), "capt%d: %s = %s" % (i, a.k, an),
                          "r%d = cl%d(%s)" % (i, i, bn)]
            elif form == "var-value":
                lines += ["t%d: %s = %s" % (i, a.k, an), "r%d = t%d %s= %s" % (i, i, op, bn)]
            elif form == "elem-value":
                lines += ["l%d: [%s...] = [%s, %s]" % (i, a.k, an, an), "r%d = l%d[1] %s= %s" % (i, i, op, bn)]
            elif form == "field-value":
                lines += ["h%d = H%s(%s)" % (i, a.k, an), "r%d = h%d.v %s= %s" % (i, i, op, bn)]
            else:
                lines += ["m%d = map[str, %s] {\"k\": %s}" % (i, a.k, an), "r%d = m%d[\"k\"] %s= %s" % (i, i, op, bn)]
            lines += ["print r%d" % i]
        elif form == "var":
            lines += ["t%d: %s = %s" % (i, a.k, an), "t%d %s= %s" % (i, op, bn), "print t%d" % i]
        elif form == "elem":
            lines += ["l%d: [%s...] = [%s, %s]" % (i, a.k, an, an), "l%d[1] %s= %s" % (i, op, bn), "print l%d[1]" % i]
        else:
            lines += ["h%d = H%s(%s)" % (i, a.k, an), "h%d.v %s= %s" % (i, op, bn), "print h%d.v" % i]
        return lines, exp
    lines = ['print "@%d"' % i] + num.init_stmts(an, a)
    exp = ["str:@%d" % i]
    lines.append("print " + an)
    exp.append("%s:%s" % (a.k, num.fmt(a)))
    if b is not None:
        lines += num.init_stmts(bn, b)
        lines.append("print " + bn)
        exp.append("%s:%s" % (b.k, num.fmt(b)))
        lines.append("print %s %s %s" % (an, op, bn))
    else:
        lines.append("print -%s" % an)
    return lines, exp


def single_scenario(op, a, b, form="expr"):
    lines, exp = pair_src(0, op, a, b, form)
    kind, val = model(op, a, b)
    src = (HOLDERS if form in ("field", "wrapped-field", "field-value") else "") + "\n".join(lines) + "\nprint \"@end\"\n"
    steps = [{"id": "run", "argv": ["mscript", "run", "main.ms", "-q"], "env": ENV}]
    ok_asserts = [{"kind": "stdout_eq", "step": "run", "float_by_value": True, "value": "\n".join(exp + [val, "str:@end"]) + "\n"},
                  {"kind": "exit", "step": "run", "in": ["ok"]}]
    fail_asserts = [{"kind": "stdout_eq", "step": "run", "float_by_value": True, "value": "\n".join(exp) + "\n"},
                    {"kind": "exit", "step": "run", "in": ["error", "panic"]}]
    if kind == "val":
        asserts = ok_asserts
    elif val == "rem-min-by-minus-one":
        k = num.promote(a.k, b.k)
        ok_asserts[0]["value"] = "\n".join(exp + ["%s:0" % k, "str:@end"]) + "\n"
        asserts = [{"kind": "any_of", "options": [ok_asserts, fail_asserts]}]
    else:
        asserts = fail_asserts
    return scenario.simple(src, steps, asserts), (kind, val), exp


def judge_single(op, a, b, form="expr"):
    sc, (kind, val), exp = single_scenario(op, a, b, form)
    res, fails, _ = scenario.execute(sc)
    if not fails:
        return None
    r = res["run"]
    if "Did not compile" in r.stderr:
        return ("rejected", None)
    got_lines = r.stdout.split("\n")
    expect = "value" if kind == "val" else "fail(%s)" % val
    if not all(scenario._line_eq(x, y) for x, y in zip(exp, got_lines[:len(exp)] + [""] * len(exp))):
        got = "operand-setup"
    elif r.klass == "ok":
        line = got_lines[len(exp)] if len(got_lines) > len(exp) else ""
        if kind == "val":
            got = "wrong-kind" if line.split(":", 1)[0] != val.split(":", 1)[0] else "wrong-value"
        else:
            got = "value"
    else:
        got = "failed(%s)" % r.klass if r.klass in ("error", "panic") else "crashed(%s)" % r.klass
    kinds = a.k + ("," + b.k if b is not None else "")
    opname = op if form == "expr" or form.startswith("wrapped-") else ("%s@%s" % (op, form) if form.startswith("lit-") else "%s=@%s" % (op, form))
    # (a literal operand is another spelling of the same evaluation: same signature as the plain expression)
    sig = "C05:%s:%s:%s:%s" % (op if form.startswith("lit-") else opname, kinds, expect, got)
    msg = "%s %s %s%s: model says %s %s; %s" % (a, opname, b, (" [right operand %s]" % form) if form.startswith("wrapped-") else "", kind, val, "; ".join(fails))
    return ("fail", fail(msg, sig, sc, case={"op": op, "a": repr(a), "b": repr(b), "form": form}))


def extreme(n):
    if n.k == "float":
        return abs(n.v) >= 1e300 or (n.v != 0 and abs(n.v) <= 1e-300)
    lo, hi = num.RANGE[n.k]
    return n.v in (lo, lo + 1, hi - 1, hi)


def check(case):
    """case = {"op","pairs":[(a,b)]} — a batch of evaluations of one cell."""
    if case["op"] == "not":
        sc = scenario.simple(case["src"], [{"id": "run", "argv": ["mscript", "run", "main.ms", "-q"], "env": ENV}],
                             [{"kind": "stdout_eq", "step": "run", "value": case["expect"]}, {"kind": "exit", "step": "run", "in": ["ok"]}])
        res, fails, _ = scenario.execute(sc)
        r = CaseResult(evals=4, nt_keys=["!true", "!false"], labels=["op=!"], sample={"op": "!", "source": case["src"]})
        if fails:
            r.failure = fail("boolean not: " + "; ".join(fails), "C05:!:bool:value:wrong-value", sc, case={"op": "!"})
        return r
    op, pairs, form = case["op"], case["pairs"], case.get("form", "expr")
    ok_pairs, lone = [], []
    for a, b in pairs:
        (ok_pairs if model(op, a, b)[0] == "val" else lone).append((a, b))
    nt, labels = [], {}
    for a, b in pairs:
        kind, val = model(op, a, b)
        if extreme(a) or (b is not None and (extreme(b) or a.k != b.k)) or kind == "fail":
            nt.append("%s%s|%r|%r" % (op, "" if form == "expr" else "=@" + form, a, b))
        lab = "expect=" + ("value" if kind == "val" else "fail:" + val)
        labels[lab] = labels.get(lab, 0) + 1
    r = CaseResult(evals=len(pairs), nt_keys=nt,
                   labels=["op=" + op, "form=" + form] + ["kinds=%s,%s" % (pairs[0][0].k, pairs[0][1].k if pairs[0][1] is not None else "-")],
                   sample={"op": op, "a": repr(pairs[0][0]), "b": repr(pairs[0][1]), "model": list(model(op, *pairs[0])), "batch": len(pairs)})
    r.labels += [l for l, n in labels.items() for _ in range(n)]
    suspects = list(lone)
    if ok_pairs:
        lines, exp = [], []
        for i, (a, b) in enumerate(ok_pairs):
            l, e = pair_src(i, op, a, b, form)
            lines += l
            exp += e + [model(op, a, b)[1]]
        sc = scenario.simple((HOLDERS if form in ("field", "wrapped-field", "field-value") else "") + "\n".join(lines) + "\n", [{"id": "run", "argv": ["mscript", "run", "main.ms", "-q"], "env": ENV}],
                             [{"kind": "stdout_eq", "step": "run", "float_by_value": True, "value": "\n".join(exp) + "\n"},
                              {"kind": "exit", "step": "run", "in": ["ok"]}])
        res, fails, _ = scenario.execute(sc)
        if fails:
            suspects = ok_pairs + suspects
    first_known = None
    for a, b in suspects:
        j = judge_single(op, a, b, form)
        if j is None:
            continue
        if j[0] == "rejected":
            r.rejected = True
            continue
        from ..engine import match_known
        if match_known(j[1]["signature"]):
            first_known = first_known or j[1]
            continue
        r.failure = j[1]
        return r
    if first_known:
        r.failure = first_known
    return r


def chunks(l, n):
    return [l[i:i + n] for i in range(0, len(l), n)]


def not_case():
    """`!` on both boolean values, operand in a run-time variable (typed print shows kind bool)"""
    src = 't: bool = true\nf: bool = false\nprint !t\nprint !f\nprint !(!t)\nu = 3 < 5\nprint !u\n'
    return {"op": "not", "src": src, "expect": "bool:false\nbool:true\nbool:true\nbool:false\n"}


def enumerated(tier, seed):
    cases = [not_case()]
    B = lambda k: num.boundary(k, tier)
    for k1 in num.KINDS:
        for k2 in num.KINDS:
            pairs = [(a, b) for a in B(k1) for b in B(k2)]
            for op in ARITH + CMP:
                cases += [{"op": op, "pairs": c} for c in chunks(pairs, 100)]
            if "float" not in (k1, k2):
                for op in BIT:
                    cases += [{"op": op, "pairs": c} for c in chunks(pairs, 100)]
            for form in ("lit-right", "lit-left"):
                lp = [(a, b) for a, b in pairs if num.literal(b if form == "lit-right" else a) is not None]
                for op in ARITH + CMP + (BIT if "float" not in (k1, k2) else []):
                    cases += [{"op": op, "pairs": c, "form": form} for c in chunks(lp, 100)]
            if num.promote(k1, k2) == k1:
                # the same operators as op-assignments (`t op= b`): the result must be storable in the target's kind
                for form in FORMS[1:]:
                    for op in ARITH:
                        cases += [{"op": op, "pairs": c, "form": form} for c in chunks(pairs, 100)]
    # every operator with a right operand that is a present optional produced by a built-in and read from a cell
    import random as _random
    rnd = _random.Random(12345)
    for k1 in num.KINDS:
        for k2 in num.KINDS:
            pairs = [(a, b) for a in B(k1) for b in B(k2) if not (b.k == "float" and (b.v != b.v or abs(b.v) == math.inf or (b.v == 0 and math.copysign(1, b.v) < 0)))]
            pairs = rnd.sample(pairs, min(len(pairs), 24 if tier == "quick" else 200))
            for form in WRAPPED:
                for op in ARITH + CMP + (BIT if "float" not in (k1, k2) else []):
                    cases.append({"op": op, "pairs": pairs[:12] if form != "wrapped-elem" and tier == "quick" else pairs, "form": form})
    for k in ("int", "bigint", "float"):
        cases.append({"op": "neg", "pairs": [(a, None) for a in B(k)]})
    # comparisons at their own boundary: an integer against the doubles on either side of it (1 and 2 ulps away) and against
    # the double that equals it, in both operand orders
    for k in ("int", "bigint", "byte"):
        pairs = []
        for a in B(k) + [Num(k, v) for v in (3, 100, 255) if num.in_range(k, v)] + ([Num(k, v) for v in (435, -1000000, 12345678)] if k != "byte" else []):
            f = float(a.v)
            if abs(f) > 1e300:
                continue
            fs = {f, math.nextafter(f, math.inf), math.nextafter(f, -math.inf), math.nextafter(math.nextafter(f, math.inf), math.inf),
                  math.nextafter(math.nextafter(f, -math.inf), -math.inf), f + 0.5, f - 0.5}
            for x in sorted(fs):
                pairs += [(a, Num("float", x)), (Num("float", x), a)]
        for op in CMP:
            cases += [{"op": op, "pairs": c} for c in chunks(pairs, 100)]
    return cases


def operand(kind):
    if kind == "float":
        return st.one_of(st.floats(allow_nan=False, allow_infinity=False),
                         st.integers(-2 ** 40, 2 ** 40).map(lambda i: i / 8.0),
                         st.sampled_from(num.FLOAT_FULL)).map(lambda v: Num("float", v))
    lo, hi = num.RANGE[kind]
    near = st.sampled_from([lo, hi, 0, 2 ** 31, -2 ** 31, 2 ** 63, 2 ** 64, 2 ** 53]).flatmap(
        lambda c: st.integers(-3, 3).map(lambda d: min(hi, max(lo, c + d))))
    small = st.integers(max(lo, -130), min(hi, 130))
    return st.one_of(st.integers(lo, hi), near, small).map(lambda v: Num(kind, v))


@st.composite
def random_case(draw):
    grp = draw(st.sampled_from(["arith", "arith", "cmp", "bit", "neg"]))
    if grp == "neg":
        k = draw(st.sampled_from(["int", "bigint", "float"]))
        return {"op": "neg", "pairs": [(draw(operand(k)), None)]}
    kinds = num.KINDS if grp != "bit" else ("int", "bigint", "byte")
    k1, k2 = draw(st.sampled_from(kinds)), draw(st.sampled_from(kinds))
    op = draw(st.sampled_from({"arith": ARITH, "cmp": CMP, "bit": BIT}[grp]))
    a = draw(operand(k1))
    if grp == "cmp" and draw(st.integers(0, 9)) < 4:
        # the second operand sits next to the first one: comparisons are decided at their own boundary
        import math
        d = draw(st.integers(-2, 2))
        if k2 == "float":
            x = float(a.v)
            for _ in range(abs(d)):
                x = math.nextafter(x, math.inf if d > 0 else -math.inf)
            b = Num("float", x) if x == x and abs(x) != math.inf else draw(operand(k2))
        else:
            lo, hi = num.RANGE[k2]
            base = a.v if k1 != "float" else (int(a.v) if abs(a.v) < 1e38 else 0)
            b = Num(k2, min(hi, max(lo, base + d)))
        pair = (a, b) if draw(st.booleans()) else (b, a)
        return {"op": op, "pairs": [pair]}
    b = draw(operand(k2))
    if grp == "arith" and num.promote(k1, k2) == k1 and draw(st.integers(0, 9)) < 3:
        return {"op": op, "pairs": [(a, b)], "form": draw(st.sampled_from(FORMS[1:]))}
    return {"op": op, "pairs": [(a, b)]}


def strategy(tier):
    return random_case()


def n_random(tier):
    return 4800 if tier == "quick" else 200000
