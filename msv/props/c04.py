"""C04 — `run` and `compile`+`execute` are observationally equivalent."""
import os, itertools, glob
from hypothesis import strategies as st
from ..engine import CaseResult, fail, match_known
from .. import scenario

ID = "C04"
LEVEL = "exploration"
RULE = ("five case families: (0) SIZE boundaries of the file format - string literals of 250 ... 70 000 bytes around every power of two, functions capturing up to 300 variables, files with up to 1 200 functions, names of 1 000 characters, class and method names (function labels) of up to 300 characters, jumps over 12 000 statements, literals with 1 000 elements, 250 parameters - each with a computed expected output; (0b) REPEATED LABELS - same-named classes in two function bodies, in the if and the else block, at module level and inside a function, same-named inner functions and methods, with the first, the second or both in use (differential only); (1) every .ms file of the repository's example corpus as entry point of a copy of its directory; "
        "(1a) a FIRST-STATEMENT family: every looping / branching statement as the first statement of a program and of a function body of every kind (parameterless, with a parameter, void, closure, method, constructor, callback, function in a list); (1a') a LAST-STATEMENT family: the same statements as the last statement of a program and of a void function body of every kind; (1a'') a FILE-NAME family: one program under 27 entry file names and path spellings (dots in the stem, upper case, leading dot, blanks, non-ASCII, punctuation, names of other artefacts, `./`, sub-directories); (1b) a RECOMPILE family: the same programs compiled into a directory that already holds the bytecode of an earlier, longer program under the same file name (the edit / recompile cycle); "
        "(2) programs from the generators of C01, C07, C08, C12, C13, C15 and the two-module failing programs of C17 "
        "(Hypothesis); (3) 80 string VALUES that read like tokens of another lexical class (numbers in every spelling, booleans, keywords, instruction / register / label names, paths, comment openers); every ASCII character (0-127) and seven further code points alone, doubled, embedded and next to a quote / backslash / space; EXHAUSTIVELY all string literals up to length 3 (quick: + a seeded sample of length 4; thorough: all "
        "of length 4) over the alphabet {quote, backslash, space, TAB, LF, CR, n, r, t, a, e-acute, emoji, NBSP, U+3000, VT, NUL} in escaped and raw "
        "source spelling, each placed as print operand, concatenation operand and map key, 150 per program. Oracle: stdout and "
        "exit class of `mscript run x.ms -q` equal those of `mscript compile x.ms --quick && mscript execute x.mmm`; for the "
        "string programs both must also equal the bytes the harness computes from the decoded strings. Non-trivial = the "
        "program has an instruction argument with a format-special character (quote, backslash, whitespace other than a "
        "single space, non-ASCII) or more than one module; distinct by program text")
ASSUMPTIONS = ["programs that wait for input or do not terminate within the watchdog under `run` are skipped (counted)",
               "string literals the source grammar cannot spell (none in this alphabet once escaped) are counted as inexpressible"]
EXHAUSTIVE = {"quick": False, "thorough": True}

# format-special characters: quote, backslash, the ASCII whitespace the reader splits on, the letters of the escapes, a
# plain letter, non-ASCII text, and UNICODE whitespace (the reader tokenizes with char::is_whitespace, not with ' ')
SIGMA = ["\"", "\\", " ", "\t", "\n", "\r", "n", "r", "t", "a", "é", "😀", "\u00a0", "\u3000", "\u000b", "\u0000"]
ESC = {"\"": "\\\"", "\\": "\\\\", "\n": "\\n", "\r": "\\r", "\t": "\\t"}
RAW = {"\"": "\\\"", "\\": "\\\\"}
CORPUS = os.path.join(os.environ.get("VERIF_REPO", "/repo"), "examples")


def spell(s, table):
    return "\"" + "".join(table.get(c, c) for c in s) + "\""


import re as _re
_ADDR = _re.compile(r"0x[0-9a-f]{6,}")


def norm(text, loose):
    """benign nondeterminism: object addresses; (corpus only) order of map / key-list printing"""
    text = _ADDR.sub("0xADDR", text)
    if not loose:
        return text
    out = []
    for line in text.split("\n"):
        if ("{" in line and "}" in line) or ("[" in line and "]" in line):
            line = "".join(sorted(line))
        out.append(line)
    return "\n".join(out)


@scenario.assert_kind("c04_equiv")
def a_equiv(a, res, ctx):
    run, comp, exe = res["run"], res["compile"], res["execute"]
    if run.klass == "timeout":
        return None
    if comp.klass != "ok":
        final_out, final_klass = comp.stdout, comp.klass
    else:
        final_out, final_klass = exe.stdout, exe.klass
    out = []
    loose = bool(a.get("loose"))
    if norm(run.stdout, loose) != norm(final_out, loose):
        rl, fl = norm(run.stdout, loose).split("\n"), norm(final_out, loose).split("\n")
        i = 0
        while i < min(len(rl), len(fl)) and rl[i] == fl[i]:
            i += 1
        out.append("stdout differs at line %d: run %r vs compile+execute %r" % (i + 1, rl[i] if i < len(rl) else "<end>", fl[i] if i < len(fl) else "<end>"))
    if run.klass != final_klass:
        out.append("exit class differs: run %s vs compile+execute %s (stderr run=%r exec=%r)" % (run.klass, final_klass, run.stderr[-200:], (exe.stderr or comp.stderr)[-200:]))
    if a.get("expect_stdout") is not None and run.stdout != a["expect_stdout"]:
        out.append("run stdout differs from the expected bytes")
    if a.get("expect_stdout") is not None and final_out != a["expect_stdout"]:
        out.append("compile+execute stdout differs from the expected bytes")
    return out or None


def make_scenario(files, entry="main.ms", expect=None, loose=False, before=None):
    base = entry[:-3]
    return {"files": {"p/q/r/" + k: v for k, v in files.items()}, "cwd": "p/q/r",
            "steps": (before or []) + [{"id": "run", "argv": ["mscript", "run", entry, "-q"]},
                      {"id": "compile", "argv": ["mscript", "compile", entry, "--quick"]},
                      {"id": "execute", "argv": ["mscript", "execute", base + ".mmm"], "only_if_ok": "compile"}],
            "asserts": [{"kind": "c04_equiv", "expect_stdout": expect, "loose": loose}]}


def special(text):
    return any(c in text for c in "\\\t\r\u00a0\u3000\u000b") or "\\\"" in text or "\\n" in text or any(ord(c) > 127 for c in text)


def string_program(items):
    """items = [(decoded string, spelling)] -> (source, expected stdout)"""
    lines, exp = [], []
    for i, (s, lit) in enumerate(items):
        lines.append('print "<<%d>>"' % i)
        lines.append("print " + lit)
        lines.append("print (" + lit + " + \"|\")")
        lines.append("k%d = map[str, int] {%s: %d}" % (i, lit, i))
        lines.append("print k%d[%s]" % (i, lit))
        exp += ["<<%d>>" % i, s, s + "|", str(i)]
    return "\n".join(lines) + "\n", "\n".join(exp) + "\n"


def check(case):
    fam = case["family"]
    if fam == "strings":
        items = case["items"]
        src, exp = string_program(items)
        sc = make_scenario({"main.ms": src}, expect=exp)
        res, fails, _ = scenario.execute(sc)
        r = CaseResult(evals=len(items), nt_keys=[lit for s, lit in items if special(lit)], labels=["family=strings"] * 1,
                       sample={"family": "strings", "first_literals": [lit for _, lit in items[:5]]})
        if fails:
            first_known = None
            for s, lit in items:
                src1, exp1 = string_program([(s, lit)])
                sc1 = make_scenario({"main.ms": src1}, expect=exp1)
                res1, fails1, _ = scenario.execute(sc1)
                if fails1:
                    feats = []
                    if "\\" in s:
                        feats.append("backslash")
                    if any(c in s for c in "\n\r\t"):
                        feats.append("ctrl")
                    if "\"" in s:
                        feats.append("quote")
                    kind = "exec-vs-run" if any("differs" in f and "expected" not in f for f in fails1) else "vs-expected"
                    f = fail("literal %s (decoded %r): %s" % (lit, s, "; ".join(fails1)), "C04:string:%s:%s" % (kind, "+".join(feats) or "plain"), sc1, case={"literal": lit})
                    if match_known(f["signature"]):
                        first_known = first_known or f
                        continue
                    r.failure = f
                    return r
            if first_known:
                r.failure = first_known
        return r
    files, entry = case["files"], case.get("entry", "main.ms")
    before = None
    if fam == "recompile":
        # the directory already holds the bytecode of ANOTHER, longer program under the same name: `earlier.ms` was compiled as main.ms
        before = [{"id": "mv1", "op": "rename", "src": "earlier.ms", "dst": "main.ms"}, {"id": "c1", "argv": ["mscript", "compile", "main.ms", "--quick"]},
                  {"id": "mv2", "op": "rename", "src": "main.ms", "dst": "earlier.ms"}, {"id": "mv3", "op": "rename", "src": "later.ms", "dst": "main.ms"}]
    sc = make_scenario(files, entry, expect=case.get("expect"), loose=(fam == "corpus"), before=before)
    res, fails, _ = scenario.execute(sc)
    text = "".join(v for v in files.values() if isinstance(v, str))
    nt = special(text) or len([f for f in files if f.endswith(".ms")]) > 1 or fam == "labels"
    labels = ["family=" + fam]
    if res["run"].klass == "timeout":
        labels.append("skipped:run-timeout")
    elif res["compile"].klass != "ok":
        labels.append("both-rejected-at-compile-time")
    else:
        labels.append("run-exit=" + res["run"].klass)
    r = CaseResult(nt_keys=[entry + "\n" + text] if nt and res["run"].klass != "timeout" else [], labels=labels,
                   sample={"family": fam, "entry": case.get("origin", entry), "files": sorted(files)})
    if fails:
        r.failure = fail("%s: %s" % (case.get("origin", fam), "; ".join(fails)), "C04:%s:%s" % (fam, "stdout" if "stdout differs" in fails[0] else "exit"), sc,
                         case={"origin": case.get("origin", fam)})
    return r


def corpus_cases():
    out = []
    for d in sorted(glob.glob(os.path.join(CORPUS, "*"))):
        if not os.path.isdir(d):
            continue
        files = {}
        for root, _, names in os.walk(d):
            for n in names:
                if n.endswith(".ms"):
                    p = os.path.join(root, n)
                    try:
                        files[os.path.relpath(p, d)] = open(p, encoding="utf-8").read()
                    except UnicodeDecodeError:
                        pass
        for entry in sorted(files):
            out.append({"family": "corpus", "files": files, "entry": entry, "origin": "examples/%s/%s" % (os.path.basename(d), entry)})
    return out


def all_strings(maxlen):
    for n in range(0, maxlen + 1):
        for t in itertools.product(SIGMA, repeat=n):
            yield "".join(t)


def ascii_strings():
    """every ASCII character (and a few more code points) alone, doubled, embedded between letters, next to a quote / a backslash:
    the alphabet of the exhaustive part is a choice, this family is not"""
    chars = [chr(c) for c in range(0, 128)] + ["\u0085", "\u00a0", "\u2028", "\u2029", "\ufeff", "\U0001f600", "\u0301"]
    out = []
    for c in chars:
        out += [c, c + c, "a" + c + "b", c + "\"", "\"" + c, c + "\\" + c, " " + c, c + " "]
    return out


def lexical_strings():
    """string VALUES that read like tokens of another lexical class - numbers in every spelling, booleans, nil, keywords,
    instruction names, register and label names, module paths: an argument is data, whatever it looks like"""
    return ["0", "7", "-7", "+7", "007", "1000", "1_000", "12_", "2024_01_15", "0x1F", "0xff", "0XFF", "0x", "0b101", "0b", "0b102", "B12", "B0x10", "1.5", "1.", ".5", "1e5", "1f", "3F",
            "inf", "NaN", "true", "false", "nil", "None", "null", "self", "Self", "print", "return", "fn", "class", "import", "e", "f", "f __module__", "e\u0000",
            "make_str", "make_int \"5\"", "ret", "void", "done", "jmp 3", "#1", "#0", "L#1", "__module__", "__fn0", "main.mmm#__module__", "./lib.mmm", "a#b", "K::m", "K::$constructor",
            "int", "str", "[int...]", "map[str, int]", "int?", "->", "...", "//", "/*", "#", "# comment", "; remark", "\\n", "\\0", "\\\\", "%s", "{}", "{0}", "$x", "${x}"]


def string_cases(tier, seed):
    import random
    strings = list(all_strings(3)) + ascii_strings() + lexical_strings()
    four = ["".join(t) for t in itertools.product(SIGMA, repeat=4)]
    if tier == "quick":
        four = random.Random(seed).sample(four, 3000)
    strings += four
    items = []
    for s in strings:
        if s.endswith("\\"):
            continue        # inexpressible: the grammar lexes a final `\"` as an escaped quote, so no literal can end in a backslash
        e, r = spell(s, ESC), spell(s, RAW)
        items.append((s, e))
        if r != e:
            items.append((s, r))
    return [{"family": "strings", "items": items[i:i + 150]} for i in range(0, len(items), 150)]


def size_cases():
    """SIZE boundaries of the file format: long arguments, many arguments, many functions, long names, far jumps.
    Every program has a computed expected stdout."""
    out = []

    def add(name, src, exp):
        out.append({"family": "sizes", "origin": "size:" + name, "files": {"main.ms": src}, "expect": exp})
    for n in (250, 255, 256, 257, 1000, 1019, 1020, 1023, 1024, 1025, 2047, 2048, 4095, 4096, 4097, 8192, 65535, 65536, 70000):
        body = ("ab cd\u00e9" * (n // 6 + 1))[:n]
        add("string-%d" % n, "s = \"%s\"\nprint s.len()\nprint s\nprint \"@end\"\n" % body, "%d\n%s\n@end\n" % (len(body.encode("utf-8")), body))
    for n in (8, 40, 130, 300):
        names = ["cap%d" % i for i in range(n)]
        src = "mk = fn() -> fn() -> int {\n" + "".join("\t%s = %d\n" % (v, i) for i, v in enumerate(names)) + \
              "\treturn fn() -> int {\n\t\treturn " + " + ".join(names) + "\n\t}\n}\nf = mk()\nprint f()\n"
        add("captures-%d" % n, src, "%d\n" % sum(range(n)))
    for n in (20, 130, 300, 1200):
        src = "".join("f%d = fn() -> int {\n\treturn %d\n}\n" % (i, i) for i in range(n)) + "print f0() + f%d()\n" % (n - 1)
        add("functions-%d" % n, src, "%d\n" % (n - 1))
    for n in (60, 200, 1000):
        nm = "v" + "x" * n
        add("name-%d" % n, "%s = 5\n%s_f = fn() -> int {\n\treturn %s + 1\n}\nprint %s_f()\n" % (nm, nm, nm, nm), "6\n")
    for cn, mn in ((10, 5), (27, 5), (10, 29), (10, 45), (41, 5), (64, 64), (100, 300), (300, 100)):
        # the labels of class code are built from user-chosen names: `Class`, `Class::$constructor`, `Class::method`
        cname, mname = "K" + "c" * (cn - 1), "m" + "x" * (mn - 1)
        src = ("class %s {\n\tv: int\n\tconstructor(self, v: int) {\n\t\tself.v = v\n\t}\n\tfn %s(self, d: int) -> int {\n\t\treturn self.v + d\n\t}\n"
               "\tfn unused_%s(self) -> int {\n\t\treturn 0\n\t}\n}\no = %s(4)\nprint o.%s(3)\n") % (cname, mname, mname, cname, mname)
        add("class-name-%d-method-name-%d" % (cn, mn), src, "7\n")
    for n in (300, 3000):
        # a linked list of n objects built in a loop: dropping / tracing it recurses once per node, outside of the program's own calls
        add("linked-list-%d" % n, "class Node {\n\tnext: Self?\n\tv: int\n\tconstructor(self, v: int, next: Self?) {\n\t\tself.v = v\n\t\tself.next = next\n\t}\n}\n"
            "head: Node? = nil\nfrom 0 to %d, i {\n\thead = Node(i, head)\n}\nprint (get head).v\nprint \"built\"\n" % n, "%d\nbuilt\n" % (n - 1))
    for n in (200, 2000):
        # one expression with n operands: the compiler recurses once per operand, under `run` as well as under `compile`
        add("operator-chain-%d" % n, "print " + " + ".join(["1"] * n) + "\nprint \"s\" + " + " + ".join(["\"ab\""] * (n // 4)) + "\n", "%d\ns%s\n" % (n, "ab" * (n // 4)))
    for n in (40, 130, 300, 3000, 12000):
        # an if body / a loop body of n statements: jump offsets beyond 127, 255, 32767
        body = "\tt = t + 1\n" * n
        src = "t = 0\nc = 0\nwhile c < 2 {\n\tc = c + 1\n\tif c == 1 {\n\t\tcontinue\n\t}\n" + body + "}\nif c == 5 {\n" + body + "} else {\n\tprint \"else\"\n}\nprint t\n"
        add("far-jump-%d" % n, src, "else\n%d\n" % n)
    for n in (10, 100, 1000):
        src = "l: [int...] = [" + ", ".join(str(i) for i in range(n)) + "]\nprint l.len()\nm = map[str, int] {" + ", ".join("\"k%d\": %d" % (i, i) for i in range(n)) + "}\nprint m.len()\nprint m[\"k%d\"]\n" % (n - 1)
        add("literal-%d-elements" % n, src, "%d\n%d\n%d\n" % (n, n, n - 1))
    for n in (5, 60, 250):
        src = "g = fn(" + ", ".join("a%d: int" % i for i in range(n)) + ") -> int {\n\treturn a0 + a%d\n}\nprint g(" % (n - 1) + ", ".join(str(i) for i in range(n)) + ")\n"
        add("parameters-%d" % n, src, "%d\n" % (n - 1))
    return out


def label_cases():
    """programs whose bytecode contains function blocks with nearly the same label: classes declared in different scopes of
    one module (function bodies, if / else blocks, loop bodies - the compiler rejects two classes with ONE name, so the names
    differ in case, by a digit or by an underscore), classes with same-named methods, inner functions with the same name,
    classes named like variables of other scopes.  Every function is called twice (a class declaration that is reached
    again must create the class again).  Expected output computed."""
    out = []

    def klass(name, tag, indent):
        t = "\t" * indent
        return ("%sclass %s {\n%s\tsize: int\n%s\tconstructor(self, size: int) {\n%s\t\tself.size = size\n%s\t}\n"
                "%s\tfn describe(self) -> str {\n%s\t\treturn \"%s \" + self.size\n%s\t}\n%s}\n") % (t, name, t, t, t, t, t, t, tag, t, t)

    def add(name, src, exp):
        out.append({"family": "labels", "origin": "labels:" + name, "files": {"main.ms": src + "print \"@end\"\n"}, "expect": exp + "@end\n"})
    for a, b in (("Shape", "shape"), ("Shape", "Shape2"), ("Shape", "Shape_"), ("S", "T")):
        for use in ("first", "second", "both", "both-reversed"):
            calls, exp = {"first": ("print one(4)\nprint one(6)\n", "circle 4\ncircle 6\n"), "second": ("print two(4)\nprint two(6)\n", "square 4\nsquare 6\n"),
                          "both": ("print one(4)\nprint two(5)\nprint one(6)\n", "circle 4\nsquare 5\ncircle 6\n"),
                          "both-reversed": ("print two(5)\nprint one(4)\nprint two(7)\n", "square 5\ncircle 4\nsquare 7\n")}[use]
            src = ("one = fn(r: int) -> str {\n" + klass(a, "circle", 1) + "\ts = %s(r)\n\treturn s.describe()\n}\n" % a +
                   "two = fn(w: int) -> str {\n" + klass(b, "square", 1) + "\ts = %s(w)\n\treturn s.describe()\n}\n" % b + calls)
            add("class-in-two-functions:%s/%s:%s" % (a, b, use), src, exp)
            src = (klass(a, "circle", 0) + "one = fn(r: int) -> str {\n\ts = %s(r)\n\treturn s.describe()\n}\n" % a +
                   "two = fn(w: int) -> str {\n" + klass(b, "square", 1) + "\ts = %s(w)\n\treturn s.describe()\n}\n" % b + calls)
            add("class-in-module-and-function:%s/%s:%s" % (a, b, use), src, exp)
    for use in ("first", "second", "both", "both-reversed"):
        calls, exp = {"first": ("print one(4)\n", "circle 4\n"), "second": ("print two(4)\n", "square 4\n"), "both": ("print one(4)\nprint two(5)\n", "circle 4\nsquare 5\n"),
                      "both-reversed": ("print two(5)\nprint one(4)\n", "square 5\ncircle 4\n")}[use]
        src = ("one = fn(r: int) -> str {\n\thelper = fn(n: int) -> str {\n\t\treturn \"circle \" + n\n\t}\n\treturn helper(r)\n}\n"
               "two = fn(w: int) -> str {\n\thelper = fn(n: int) -> str {\n\t\treturn \"square \" + n\n\t}\n\treturn helper(w)\n}\n" + calls)
        add("inner-functions:" + use, src, exp)
    for flag in ("true", "false"):
        src = ("flag = %s\nif flag {\n" % flag + klass("Shape", "circle", 1) + "\ts = Shape(4)\n\tprint s.describe()\n} else {\n" +
               klass("Shape2", "square", 1) + "\ts = Shape2(5)\n\tprint s.describe()\n}\n")
        add("class-in-if-and-else:" + flag, src, "circle 4\n" if flag == "true" else "square 5\n")
        src = ("flag = %s\nn = 0\nwhile n < 2 {\n\tn = n + 1\n\tif flag {\n" % flag + klass("Shape", "circle", 2) + "\t\ts = Shape(n)\n\t\tprint s.describe()\n\t} else {\n" +
               klass("Shape2", "square", 2) + "\t\ts = Shape2(n)\n\t\tprint s.describe()\n\t}\n}\n")
        add("class-in-if-and-else-in-loop:" + flag, src, "circle 1\ncircle 2\n" if flag == "true" else "square 1\nsquare 2\n")
    # two methods / two fields / a method and a variable whose names differ only in letter case
    src = ("class Mc {\n\tid: int\n\tID: int\n\tconstructor(self) {\n\t\tself.id = 1\n\t\tself.ID = 2\n\t}\n\tfn bits(self) -> int {\n\t\treturn self.id\n\t}\n\tfn BITS(self) -> int {\n\t\treturn self.ID * 10\n\t}\n"
           "\tfn Bits(self) -> int {\n\t\treturn 300\n\t}\n}\nmc = Mc()\nMC = 7\nprint mc.bits() + mc.BITS() + mc.Bits() + MC\n")
    add("members-differ-in-case", src, "328\n")
    # different classes with same-named methods; a module-level function named like the methods; a local named like a class of another scope
    src = (klass("A", "a", 0) + klass("B", "b", 0) + "describe = fn() -> str {\n\treturn \"free\"\n}\nx = A(1)\ny = B(2)\nprint x.describe()\nprint y.describe()\nprint describe()\n"
           "user = fn() -> int {\n\tB = 5\n\treturn B + 1\n}\nprint user()\nz = B(3)\nprint z.describe()\n")
    add("same-named-methods", src, "a 1\nb 2\nfree\n6\nb 3\n")
    return out


def first_statement_cases():
    """every looping / branching statement as the FIRST statement of a program and of a function body of every kind (without
    and with parameters, closure, method, constructor, callback): the first instruction of a function block is then a jump
    target, and backward jumps reach instruction 0"""
    firsts = {"while-true-break": "while true {\n\tprint \"in\"\n\tbreak\n}", "while-true-nested": "while true {\n\twhile true {\n\t\tbreak\n\t}\n\tbreak\n}",
              "from-literal": "from 0 to 2 {\n\tprint \"it\"\n}", "from-counter-continue": "from 0 to 3, i {\n\tif i == 1 {\n\t\tcontinue\n\t}\n\tprint i\n}",
              "if-else": "if 1 < 2 {\n\tprint \"then\"\n} else {\n\tprint \"else\"\n}"}
    with_state = {"while-countdown": "while total > 10 {\n\tmodify total = total - 4\n}", "while-zero-iterations": "while total > 100 {\n\tprint \"never\"\n}",
                  "while-break-on-state": "while true {\n\tif total > 0 {\n\t\tbreak\n\t}\n}", "while-continue": "while total > 10 {\n\tmodify total = total - 4\n\tif total > 12 {\n\t\tcontinue\n\t}\n\tprint total\n}",
                  "from-to-state": "from 0 to total - 20, i {\n\tprint i\n}", "if-on-state": "if total > 10 {\n\tprint \"big\"\n}"}
    ind = lambda text, n: "\n".join("\t" * n + l for l in text.split("\n"))
    out = []

    def add(name, src):
        out.append({"family": "first-statement", "origin": "first-statement:" + name, "files": {"main.ms": src}})
    for n, st_ in firsts.items():
        add("program:" + n, st_ + "\nprint \"@end\"\n")
    for n, st_ in list(firsts.items()) + list(with_state.items()):
        pre = "total = 22\n"
        add("function:" + n, pre + "f = fn() -> int {\n" + ind(st_, 1) + "\n\treturn total\n}\nprint f()\nprint f()\n")
        add("function-with-parameter:" + n, pre + "f = fn(q: int) -> int {\n" + ind(st_, 1) + "\n\treturn total + q\n}\nprint f(1)\n")
        add("void-function:" + n, pre + "f = fn() {\n" + ind(st_, 1) + "\n}\nf()\nprint total\n")
        add("closure:" + n, pre + "mk = fn() -> fn() -> int {\n\treturn fn() -> int {\n" + ind(st_, 2) + "\n\t\treturn total\n\t}\n}\ng = mk()\nprint g()\n")
        add("method:" + n, pre + "class K {\n\tfn m(self) -> int {\n" + ind(st_, 2) + "\n\t\treturn total\n\t}\n}\nk = K()\nprint k.m()\n")
        add("constructor:" + n, pre + "class K {\n\tv: int\n\tconstructor(self) {\n" + ind(st_, 2) + "\n\t\tself.v = total\n\t}\n}\nk = K()\nprint k.v\n")
        add("callback:" + n, pre + "xs: [int...] = [1, 2]\nys = xs.map(fn(x: int) -> int {\n" + ind(st_, 1) + "\n\treturn x + total\n})\nprint ys\n")
        add("function-in-list:" + n, pre + "fs: [fn() -> int...] = [fn() -> int {\n" + ind(st_, 1) + "\n\treturn total\n}]\nh = fs[0]\nprint h()\n")
    return out


def last_statement_cases():
    """every looping / branching statement as the LAST statement of a program and of a void function body of every kind: the
    exits of the statement (loop condition false, break, the end of a branch) land on whatever the compiler puts behind the body"""
    lasts = {"while-countdown": "while total > 10 {\n\tmodify total = total - 4\n}", "while-break": "while true {\n\tif total > 0 {\n\t\tbreak\n\t}\n}",
             "while-continue": "while total > 10 {\n\tmodify total = total - 4\n\tif total > 12 {\n\t\tcontinue\n\t}\n\tprint total\n}",
             "while-zero-iterations": "while total > 100 {\n\tprint \"never\"\n}", "from-fresh-counter": "from 0 to 3, i {\n\tprint i\n}",
             "from-reused-counter": "from 0 to 3, reused {\n\tprint reused\n}", "from-anonymous": "from 0 to 2 {\n\tprint \"it\"\n}",
             "from-break": "from 0 to 5, i {\n\tif i == 2 {\n\t\tbreak\n\t}\n}", "if-without-else": "if total > 10 {\n\tprint \"big\"\n}",
             "if-else": "if total > 100 {\n\tprint \"huge\"\n} else {\n\tprint \"small\"\n}", "if-holding-while": "if total > 10 {\n\twhile total > 10 {\n\t\tmodify total = total - 4\n\t}\n}",
             "else-holding-from": "if total > 100 {\n\tprint \"huge\"\n} else {\n\tfrom 0 to 2, i {\n\t\tprint i\n\t}\n}", "while-in-while": "while total > 10 {\n\twhile total > 14 {\n\t\tmodify total = total - 4\n\t}\n\tmodify total = total - 4\n}"}
    ind = lambda text, n: "\n".join("\t" * n + l for l in text.split("\n"))
    out = []

    def add(name, src):
        out.append({"family": "last-statement", "origin": "last-statement:" + name, "files": {"main.ms": src}})
    for n, st_ in lasts.items():
        pre = "total = 22\nreused = 0\n"
        local = "\treused = 0\n"
        add("program:" + n, pre + "print \"go\"\n" + st_.replace("modify ", "") + "\n")
        add("void-function:" + n, pre + "f = fn() {\n" + local + ind(st_, 1) + "\n}\nf()\nf()\nprint total\n")
        add("void-function-with-parameter:" + n, pre + "f = fn(q: int) {\n" + local + "\tprint q\n" + ind(st_, 1) + "\n}\nf(1)\nprint total\n")
        add("void-closure:" + n, pre + "mk = fn() -> fn() {\n\treturn fn() {\n\t" + local + ind(st_, 2) + "\n\t}\n}\ng = mk()\ng()\nprint total\n")
        add("void-method:" + n, pre + "class K {\n\tfn m(self) {\n\t" + local + ind(st_, 2) + "\n\t}\n}\nk = K()\nk.m()\nk.m()\nprint total\n")
        add("constructor:" + n, pre + "class K {\n\tv: int\n\tconstructor(self) {\n\t\tself.v = 1\n\t" + local + ind(st_, 2) + "\n\t}\n}\nk = K()\nprint k.v + total\n")
        add("void-method-called-from-method:" + n, pre + "class K {\n\tfn m(self) {\n\t" + local + ind(st_, 2) + "\n\t}\n\tfn twice(self) -> int {\n\t\tself.m()\n\t\tself.m()\n\t\treturn total\n\t}\n}\nk = K()\nprint k.twice()\n")
    return out


ENTRY_NAMES = ["shapes.v2.ms", "two.dots.here.ms", "UPPER.ms", "MiXed.Case.ms", ".hidden.ms", "a b.ms", "\u00e9t\u00e9.ms", "x.mmm.ms", "x.transpiled.ms", "x.ms.ms", "a,b.ms",
               "a;b.ms", "a=b.ms", "a+b.ms", "a'b.ms", "a&b.ms", "(x).ms", "[x].ms", "1.ms", "__module__.ms", "main.main.ms",
               # the same file reached through other SPELLINGS of its path (the same spelling for every command)
               "./main.ms", "././main.ms", "sub/main.ms", "./sub/main.ms", "sub/./main.ms", "sub/deeper/main.ms"]


def file_name_cases():
    """the SAME program under entry file names of every shape (dots in the stem, upper case, a leading dot, blanks, non-ASCII,
    punctuation, names that look like other artefacts): file names end up in the labels of the bytecode and in the paths the
    commands derive from one another, the program does not care what its file is called"""
    src = ("class Pt {\n\tx: int\n\tconstructor(self, x: int) {\n\t\tself.x = x\n\t}\n\tfn twin(self) -> Self {\n\t\treturn Self(self.x + 1)\n\t}\n}\n"
           "mk = fn(k: int) -> fn() -> int {\n\treturn fn() -> int {\n\t\treturn k * 2\n\t}\n}\np = Pt(4)\nprint (p.twin()).x\ng = mk(21)\nprint g()\n"
           "xs: [int...] = [1, 2, 3]\nprint xs.map(fn(v: int) -> int {\n\treturn v + (p.twin()).x\n})\nprint \"@end\"\n")
    return [{"family": "file-names", "origin": "file-name:" + n, "files": {n: src}, "entry": n, "expect": "5\n42\n[6, 7, 8]\n@end\n"} for n in ENTRY_NAMES]


def recompile_cases():
    """the edit / recompile cycle: `compile` writes main.mmm over the output of an earlier, LONGER program of the same name;
    what `execute` then runs must be the new program and nothing else"""
    sizes = {c["origin"]: c for c in size_cases()}
    earlier = [sizes["size:functions-130"]["files"]["main.ms"] + "print \"earlier program\"\n", sizes["size:string-4096"]["files"]["main.ms"],
               "".join("print \"old line %d\"\n" % i for i in range(40))]
    later = [c for c in label_cases()[::6]] + [sizes[k] for k in ("size:string-250", "size:functions-20", "size:captures-8", "size:parameters-5", "size:literal-10-elements")]
    later.append({"origin": "tiny", "files": {"main.ms": "print \"new\"\n"}, "expect": "new\n"})
    out = []
    for i, e in enumerate(earlier):
        for c in later:
            out.append({"family": "recompile", "origin": "recompile:%s-over-earlier-%d" % (c["origin"], i), "files": {"earlier.ms": e, "later.ms": c["files"]["main.ms"]}, "expect": c["expect"]})
    return out


def enumerated(tier, seed):
    return corpus_cases() + size_cases() + label_cases() + first_statement_cases() + last_statement_cases() + file_name_cases() + recompile_cases() + string_cases(tier, seed)


def strategy(tier):
    from . import c01, c07, c08, c12, c13, c15, c17
    subs = []
    for name, mod in (("c01", c01), ("c07", c07), ("c08", c08), ("c12", c12), ("c13", c13), ("c15", c15), ("c17", c17)):
        subs.append(mod.strategy(tier).map(lambda c, mod=mod, name=name: {"family": "gen-" + name, "files": mod.files(c)}))
    return st.one_of(subs)


def n_random(tier):
    return 1600 if tier == "quick" else 30000
