"""C15 — operands are evaluated left to right, once; logical operators short-circuit."""
import os
from hypothesis import strategies as st
from ..engine import CaseResult, fail
from .. import scenario, ms, model
from ..gen import G, I

ID = "C15"
LEVEL = "exploration"
RULE = ("cases are expression trees (depth <= 4) whose leaves are calls of logging functions (one logger per result type; "
        "recursive loggers keep temporaries live across nested activations) and - in half of the cases - BARE reads of mutable state (a variable, a list element, an object field) "
        "next to logging calls that change that state, operands that FAIL when evaluated (unwrapping nil, an element that is not there) behind a `&&` / `||` whose left side - a guard or a logging call - decides the result, and operands that are PATHS rooted at a `const` or a plain name (a logging method call that changes its object, a field read, a subscript computed by a logging call), and - one leaf in seven - plain CONSTANTS (so that `f() && false`, `g() || true`, `h() * 0` occur), combined by binary operators (printed with the "
        "minimal parentheses of the precedence table, or explicitly parenthesised), calls with 0-4 arguments whose callees "
        "log on entry, method calls, list and map literals, indexing, &&, ||, `or`; the oracle is the reference interpreter's "
        "log sequence followed by the value. Non-trivial = >= 3 logging leaves of which one is nested >= 2 deep, or a bare state read and a mutator in one expression; distinct by "
        "program text")
ASSUMPTIONS = ["operator precedence as in the compiler's Pratt table (all binary operators left-associative)"]

S = lambda s: ("lit", "str", s)
V = lambda n: ("var", n)


def prelude():
    """logging functions: (statements, nothing else)"""
    def logger(name, tag, t):
        return ("decl", name, None, ("fn", [("k", "int"), ("v", t)], t,
                [("print", ("bin", "+", S(tag), V("k"))), ("return", V("v"))]), ())
    st_ = [logger("Li", "i", "int"), logger("Lb", "b", "bool"), logger("Ls", "s", "str"),
           logger("Lo", "o", ("opt", "int")), logger("Ll", "l", ("list", "int"))]
    # recursive logger: logs at every level, result passes through d nested activations
    st_.append(("decl", "R", None, ("fn", [("d", "int"), ("k", "int"), ("v", "int")], "int", [
        ("print", ("bin", "+", ("bin", "+", S("r"), V("k")), ("bin", "+", S(":"), V("d")))),
        ("if", ("bin", ">", V("d"), I(0)), [
            ("return", ("bin", "+", ("call", V("Li"), [("bin", "+", ("bin", "*", V("k"), I(100)), V("d")), I(0)]),
                        ("selfcall", [("bin", "-", V("d"), I(1)), V("k"), V("v")])))], None),
        ("return", V("v"))]), ()))
    # mutable state read by BARE operands (variable, list element, object field) and changed by logging mutators: an
    # operand's value must be the one it had when ITS turn came, whatever later siblings do to the variable
    st_.append(("decl", "acc", None, I(1), ()))
    st_.append(("decl", "cell", ("list", "int"), ("list", [I(10), I(20), I(30)]), ()))
    st_.append(("class", "P", [("v", "int")], [("v", "int")], [("setf", V("self"), "v", V("v"))], []))
    st_.append(("decl", "p", None, ("new", "P", [I(5)]), ()))
    log = lambda: ("print", ("bin", "+", S("m"), V("k")))
    st_.append(("decl", "M", None, ("fn", [("k", "int"), ("d", "int")], "int",
                [log(), ("decl", "acc", None, ("bin", "+", V("acc"), V("d")), ("modify",)), ("return", V("acc"))]), ()))
    st_.append(("decl", "ML", None, ("fn", [("k", "int"), ("d", "int")], "int",
                [log(), ("seti", V("cell"), I(1), ("bin", "+", ("index", V("cell"), I(1)), V("d"))), ("return", ("index", V("cell"), I(1)))]), ()))
    st_.append(("decl", "MP", None, ("fn", [("k", "int"), ("d", "int")], "int",
                [log(), ("setf", V("p"), "v", ("bin", "+", ("field", V("p"), "v"), V("d"))), ("return", ("field", V("p"), "v"))]), ()))
    # the same kinds of state behind names bound in other ways: `const` objects and lists (the NAME is constant, what it refers to
    # is not), and a counter object whose METHODS log and change it: operands that are paths - a method call, a field read, a
    # computed subscript - rooted at such a name are operands like any other
    st_.append(("class", "Cn", [("n", "int")], [("n", "int")], [("setf", V("self"), "n", V("n"))], [
        ("next", [("k", "int")], "int", [("print", ("bin", "+", S("n"), V("k"))), ("setf", V("self"), "n", ("bin", "+", ("field", V("self"), "n"), I(1))),
                                         ("return", ("field", V("self"), "n"))]),
        ("peek", [("k", "int")], "int", [("print", ("bin", "+", S("p"), V("k"))), ("return", ("field", V("self"), "n"))])]))
    st_.append(("decl", "cc", None, ("new", "Cn", [I(0)]), ("const",)))
    st_.append(("decl", "vc", None, ("new", "Cn", [I(0)]), ()))
    st_.append(("decl", "ct", ("list", "int"), ("list", [I(10), I(20), I(30)]), ("const",)))
    # operands that FAIL when they are evaluated (unwrapping nil, reading an element that is not there) and their harmless twins:
    # behind a `&&` / `||` whose left side decides the result they must not be evaluated at all
    # BOOLEAN state read bare (a variable, a list element, an object field) next to a logging call that rewrites it: the left
    # operand of && / || keeps the value it had when it was evaluated, whatever the right operand does to its cell
    st_.append(("decl", "bv", None, ("lit", "bool", False), ()))
    st_.append(("decl", "bl", ("list", "bool"), ("list", [("lit", "bool", False), ("lit", "bool", True)]), ()))
    st_.append(("class", "Pb", [("f", "bool")], [("f", "bool")], [("setf", V("self"), "f", V("f"))], []))
    st_.append(("decl", "pb", None, ("new", "Pb", [("lit", "bool", False)]), ()))
    st_.append(("decl", "MB", None, ("fn", [("k", "int"), ("to", "bool"), ("answer", "bool")], "bool",
                [("print", ("bin", "+", S("mb"), V("k"))), ("decl", "bv", None, V("to"), ("modify",)), ("seti", V("bl"), I(0), V("to")), ("setf", V("pb"), "f", V("to")), ("return", V("answer"))]), ()))
    st_.append(("decl", "ob", ("opt", "bool"), ("nil",), ()))
    st_.append(("decl", "obt", ("opt", "bool"), ("lit", "bool", True), ()))
    st_.append(("decl", "eb", ("list", "bool"), ("list", []), ()))
    st_.append(("decl", "nb", ("list", "bool"), ("list", [("lit", "bool", True)]), ()))
    for n in range(0, 5):
        params = [("a%d" % i, "int") for i in range(n)]
        body = [("print", S("A%d" % n))]
        e = I(1)
        for i in range(n):
            e = ("bin", "+", ("bin", "*", e, I(2)), V("a%d" % i))
        body.append(("return", e))
        st_.append(("decl", "A%d" % n, None, ("fn", params, "int", body), ()))
    return st_


class Ctx:
    def __init__(self, g):
        self.g = g
        self.k = 0
        self.leaves = 0
        self.maxdepth = 0
        self.state = g.chance(50)       # half of the cases mix bare state reads and mutators into the leaves
        self.reads = 0
        self.mutators = 0
        self.consts = 0

    def key(self):
        self.k += 1
        return I(self.k)


def leaf(c, t, nest):
    g = c.g
    if nest > 0 and g.chance(14):
        # a CONSTANT operand next to operands with effects: whatever the compiler can compute early, the siblings still run
        g.label("constant-operand")
        c.consts += 1
        if t == "int":
            return I(g.int(-3, 4))
        if t == "bool":
            return ("lit", "bool", g.chance(50))
        if t == "str":
            return S(g.choice(["", "a", "xyz"]))
    c.leaves += 1
    c.maxdepth = max(c.maxdepth, nest)
    if t == "int" and c.state:
        ch = g.weighted([(58, "log"), (14, "read"), (12, "mutate"), (16, "path")])
        if ch == "path":
            root = g.choice(["cc", "cc", "vc"])
            k = g.choice(["method-mutate", "method-mutate", "method-read", "field-read", "subscript", "subscript-of-variable"])
            g.label("path-operand:%s:%s" % ("const-root" if k == "subscript" or (root == "cc" and k != "subscript-of-variable") else "variable-root", k))
            if k == "method-mutate":
                c.mutators += 1
                return ("mcall", V(root), "next", [c.key()])
            if k == "method-read":
                c.reads += 1
                return ("mcall", V(root), "peek", [c.key()])
            if k == "field-read":
                c.reads += 1
                return ("field", V(root), "n")
            return ("index", V("ct" if k == "subscript" else "cell"), ("call", V("Li"), [c.key(), I(g.int(0, 2))]))
        if ch == "read":
            c.reads += 1
            g.label("state-read")
            e = g.choice([V("acc"), V("acc"), ("index", V("cell"), I(1)), ("field", V("p"), "v"), ("paren", V("acc"))])
            return e
        if ch == "mutate":
            c.mutators += 1
            g.label("state-mutate")
            return ("call", V(g.choice(["M", "M", "ML", "MP"])), [c.key(), I(g.int(1, 9))])
    if t == "int":
        if g.chance(15):
            g.label("recursive-logger")
            return ("call", V("R"), [I(g.int(1, 3)), c.key(), I(g.int(-3, 4))])
        return ("call", V("Li"), [c.key(), I(g.int(-3, 4))])
    if t == "bool" and c.state and g.chance(30):
        if g.chance(50):
            c.reads += 1
            g.label("bool-state-read")
            return g.choice([V("bv"), ("index", V("bl"), I(0)), ("field", V("pb"), "f"), ("index", V("bl"), I(0)), ("field", V("pb"), "f")])
        c.mutators += 1
        g.label("bool-state-mutate")
        return ("call", V("MB"), [c.key(), ("lit", "bool", g.chance(50)), ("lit", "bool", g.chance(50))])
    if t == "bool" and g.chance(22):
        # a guard in front of an operand that cannot be evaluated when the guard says so (no call in it: nothing to log, only to fail)
        absent = g.chance(65)
        src = g.choice(["optional", "element"])
        g.label("guarded-failing-operand:%s:%s" % (src, "absent" if absent else "present"))
        c.leaves += 1
        if src == "optional":
            o = V("ob" if absent else "obt")
            risky = ("get", o)
            guard_and, guard_or = ("bin", "!=", o, ("nil",)), ("bin", "==", o, ("nil",))
        else:
            l = V("eb" if absent else "nb")
            risky = ("index", l, I(0))
            guard_and, guard_or = ("bin", ">", ("mcall", l, "len", []), I(0)), ("bin", "==", ("mcall", l, "len", []), I(0))
        form = g.choice(["and", "or", "logged-and", "logged-or", "and-not", "nested"])
        if form == "and":
            return ("paren", ("bin", "&&", guard_and, risky))
        if form == "or":
            return ("paren", ("bin", "||", guard_or, risky))
        if form == "logged-and":
            return ("paren", ("bin", "&&", ("call", V("Lb"), [c.key(), ("lit", "bool", not absent)]), risky))
        if form == "logged-or":
            return ("paren", ("bin", "||", ("call", V("Lb"), [c.key(), ("lit", "bool", absent)]), risky))
        if form == "and-not":
            return ("paren", ("bin", "&&", guard_and, ("not", risky)))
        return ("paren", ("bin", "||", ("paren", ("bin", "&&", guard_and, risky)), ("call", V("Lb"), [c.key(), ("lit", "bool", g.chance(50))])))
    if t == "bool":
        return ("call", V("Lb"), [c.key(), ("lit", "bool", g.chance(50))])
    if t == "str":
        return ("call", V("Ls"), [c.key(), S(g.choice(["", "a", "ab", "xyz"]))])
    raise ValueError(t)


def gen(c, t, depth, nest=0):
    g = c.g
    if depth <= 0:
        return leaf(c, t, nest)
    if t == "int":
        ch = g.weighted([(2, "leaf"), (5, "bin"), (3, "call"), (1, "index"), (2, "literal-indexed"), (1, "len"), (2, "or"), (1, "paren")])
        if ch == "literal-indexed":
            # a list / map LITERAL that is indexed or asked for its length on the spot: every element is evaluated, in order,
            # whichever one is selected (a constant index is the only one the type checker takes behind a literal)
            n = g.int(2, 4)
            elems = [gen(c, "int", depth - 1, nest + 1) for _ in range(n)]
            k = g.choice(["index", "index-nested", "len", "map-entry"])
            g.label("literal-used-on-the-spot:" + k)
            if k == "index":
                return ("index", ("list", elems), I(g.int(0, n - 1)))
            if k == "index-nested":
                return ("index", ("index", ("list", [("list", elems), ("list", [gen(c, "int", depth - 1, nest + 1)])]), I(0)), I(g.int(0, n - 1)))
            if k == "len":
                return ("mcall", ("list", elems), "len", [])
            keys = ["p", "q", "r", "s"][:n]
            return ("or", ("index", ("map", "str", "int", [(S(kk), e) for kk, e in zip(keys, elems)]), S(g.choice(keys))), I(0 - 1))
        if ch == "leaf":
            return leaf(c, t, nest)
        if ch == "bin":
            return ("bin", g.choice(["+", "-", "*", "+", "-"]), gen(c, "int", depth - 1, nest + 1), gen(c, "int", depth - 1, nest + 1))
        if ch == "paren":
            g.label("explicit-paren")
            return ("paren", ("bin", g.choice(["+", "-", "*"]), gen(c, "int", depth - 1, nest + 1), gen(c, "int", depth - 1, nest + 1)))
        if ch == "call":
            n = g.int(0, 4)
            g.label("call-%d-args" % n)
            return ("call", V("A%d" % n), [gen(c, "int", depth - 1, nest + 1) for _ in range(n)])
        if ch == "index":
            g.label("index")
            c.leaves += 1
            lst = ("call", V("Ll"), [c.key(), V("lst")])
            c.leaves += 1
            return ("index", lst, ("call", V("Li"), [c.key(), I(g.int(0, 2))]))
        if ch == "len":
            g.label("method")
            return ("mcall", gen(c, "str", depth - 1, nest + 1), "len", [])
        g.label("or")
        c.leaves += 1
        present = g.chance(50)
        lhs = ("call", V("Lo"), [c.key(), I(g.int(-3, 4)) if present else ("nil",)])
        return ("or", lhs, gen(c, "int", depth - 1, nest + 1))
    if t == "bool":
        ch = g.weighted([(2, "leaf"), (5, "logic"), (3, "cmp"), (1, "not"), (1, "contains"), (3 if c.state else 0, "stateful-logic")])
        if ch == "stateful-logic":
            # a bare read of boolean state on the LEFT of && / ||, and on the right a call that rewrites that state (directly, or
            # somewhere inside a deeper tree)
            g.label("stateful-logic")
            c.reads += 1
            c.mutators += 1
            c.leaves += 2
            left = g.choice([V("bv"), ("index", V("bl"), I(0)), ("field", V("pb"), "f"), ("index", V("bl"), I(0)), ("field", V("pb"), "f")])
            mb = ("call", V("MB"), [c.key(), ("lit", "bool", g.chance(50)), ("lit", "bool", g.chance(50))])
            right = mb if g.chance(50) else ("paren", ("bin", g.choice(["&&", "||"]), gen(c, "bool", depth - 1, nest + 1), mb))
            return ("paren", ("bin", g.choice(["&&", "||"]), left, right))
        if ch == "leaf":
            return leaf(c, t, nest)
        if ch == "logic":
            op = g.choice(["&&", "||"])
            g.label(op)
            return ("bin", op, gen(c, "bool", depth - 1, nest + 1), gen(c, "bool", depth - 1, nest + 1))
        if ch == "cmp":
            return ("bin", g.choice(["<", "<=", "==", "!=", ">", ">="]), gen(c, "int", depth - 1, nest + 1), gen(c, "int", depth - 1, nest + 1))
        if ch == "not":
            return ("not", gen(c, "bool", depth - 1, nest + 1))
        g.label("method")
        return ("mcall", gen(c, "str", depth - 1, nest + 1), "contains", [gen(c, "str", depth - 1, nest + 1)])
    if t == "str":
        ch = g.weighted([(3, "leaf"), (4, "cat"), (2, "catint"), (1, "rep-str-int"), (1, "rep-int-str")])
        if ch == "leaf":
            return leaf(c, t, nest)
        if ch.startswith("rep"):
            # string repetition with the count on either side (operands of DIFFERENT kinds around one operator)
            g.label(ch)
            cnt = ("call", V("Li"), [c.key(), I(g.int(0, 3))])
            c.leaves += 1
            st_ = gen(c, "str", depth - 1, nest + 1)
            return ("bin", "*", st_, cnt) if ch == "rep-str-int" else ("bin", "*", cnt, st_)
        if ch == "cat":
            return ("bin", "+", gen(c, "str", depth - 1, nest + 1), gen(c, "str", depth - 1, nest + 1))
        return ("bin", "+", gen(c, "str", depth - 1, nest + 1), gen(c, "int", depth - 1, nest + 1))
    raise ValueError(t)


@st.composite
def cases(draw):
    g = G(draw)
    c = Ctx(g)
    stmts = [("decl", "lst", ("list", "int"), ("list", [I(10), I(20), I(30)]), ())]
    form = g.weighted([(6, "print"), (2, "list"), (2, "map"), (1, "args-of-print-concat")])
    depth = g.weighted([(1, 1), (2, 2), (3, 3), (3, 4)])
    if form == "print":
        t = g.weighted([(4, "int"), (4, "bool"), (2, "str")])
        stmts.append(("print", gen(c, t, depth)))
    elif form == "list":
        g.label("list-literal")
        n = g.int(1, 4)
        stmts.append(("decl", "x", ("list", "int"), ("list", [gen(c, "int", depth - 1, 1) for _ in range(n)]), ()))
        stmts.append(("print", V("x")))
    elif form == "map":
        g.label("map-literal")
        n = g.int(1, 4)
        # keys: logging calls, or LITERALS written in an order that is not the sorted one (entries are evaluated in source order
        # whatever their keys are), optionally with a repeated key (the later entry wins, both values are evaluated)
        kk = g.choice(["call", "literal", "literal", "mixed"])
        pool = ["width", "height", "depth", "zeta", "alpha", "m", "M", "k10", "k9"]
        keys = [pool[g.int(0, len(pool) - 1)] for _ in range(n)] if kk != "call" else ["ka", "kb", "kc", "kd"][:n]
        g.label("map-literal-keys:" + kk + (":unsorted" if keys != sorted(keys) else ":sorted") + (":repeated" if len(set(keys)) < len(keys) else ""))
        pairs = []
        for i_, kname in enumerate(keys):
            if kk == "call" or (kk == "mixed" and i_ == 0):
                c.leaves += 1
                pairs.append((("call", V("Ls"), [c.key(), S(kname)]), gen(c, "int", depth - 1, 1)))
            else:
                pairs.append((S(kname), gen(c, "int", max(depth - 1, 1), 1)))
        stmts.append(("decl", "m", None, ("map", "str", "int", pairs), ()))
        for kname in sorted(set(keys)):
            stmts.append(("print", ("index", V("m"), S(kname))))
        stmts.append(("print", ("mcall", V("m"), "len", [])))
    else:
        stmts.append(("print", ("bin", "+", ("bin", "+", S("v="), gen(c, "int", depth, 1)), gen(c, "str", depth - 1, 1))))
    if c.state:
        stmts += [("print", V("bv")), ("print", V("bl")), ("print", ("field", V("pb"), "f")), ("print", V("acc")), ("print", V("cell")), ("print", ("field", V("p"), "v")), ("print", ("field", V("cc"), "n")), ("print", ("field", V("vc"), "n"))]
        if c.reads and c.mutators:
            g.label("state-read-and-mutate-in-one-expression")
    return {"stmts": stmts, "labels": sorted(g.labels) + ["form=" + form, "depth=%d" % depth],
            "nt": (c.leaves >= 3 and c.maxdepth >= 2) or (c.reads >= 1 and c.mutators >= 1), "leaves": c.leaves}


PRELUDE = prelude()


def check(case):
    stmts = PRELUDE + [("print", S("@start"))] + case["stmts"] + [("print", S("@end"))]
    src, _ = ms.program(stmts, minparen=True)
    try:
        out, failure = model.Interp().run(stmts)
    except model.OutOfFuel:
        return CaseResult(evals=0, labels=["discard:model-fuel"])
    body_src, _ = ms.program(case["stmts"], minparen=True)
    sc = scenario.simple(src, asserts=[{"kind": "stdout_eq", "step": "run", "value": out},
                                      {"kind": "exit", "step": "run", "in": ["ok"] if failure is None else ["error", "panic"]}])
    r = CaseResult(nt_keys=[body_src] if case["nt"] else [], labels=case["labels"] + ["model:" + (failure.kind if failure else "ok")],
                   sample={"program_tail": body_src, "expected_log": out[-400:]})
    res, fails, _ = scenario.execute(sc)
    if fails:
        run = res["run"]
        if "Did not compile" in run.stderr:
            r.rejected = True
            if os.environ.get("MSV_DEBUG"):
                print("REJECTED:\n" + body_src + "\n" + run.stdout[:600])
            if failure is None:
                # the reference interpreter runs this program to completion: a compile-time rejection of it is a violation
                # (when the model predicts a run-time failure, the compiler may legitimately report it earlier)
                diag = "\n".join(l for l in run.stdout.split("\n") if " = " in l or "-->" in l)[:600]
                r.failure = fail("the compiler rejected a program that the language accepts and the reference interpreter runs:\n" + diag + "\n" + body_src,
                                 "C15:rejected-valid-program", sc, case={"diagnostics": diag})
            return r
        r.failure = fail("; ".join(fails) + "\nprogram tail:\n" + body_src, "C15:%s:%s" % ("stdout" if run.stdout != out else "exit", run.klass), sc,
                         case={"source_tail": body_src})
    return r


def strategy(tier):
    return cases()


def n_random(tier):
    return 9600 if tier == "quick" else 200000


def files(case):
    return {"main.ms": ms.program(PRELUDE + [("print", S("@start"))] + case["stmts"] + [("print", S("@end"))], minparen=True)[0]}
