"""C14 — string and number built-in methods compute their documented function."""
import math, itertools, os
from hypothesis import strategies as st
from ..engine import CaseResult, fail, match_known
from .. import scenario, num, ms
from ..num import Num, Fail
from ..gen import G

ID = "C14"
LEVEL = "exploration"
RULE = ("evaluation = one method call on a receiver held in a run-time variable; enumerated part = every method of the statement "
        "x the cross product of boundary receivers (empty / 1-char / ASCII / multi-byte text; numeric extremes of each kind) and "
        "boundary arguments (indices -1, 0, 1, len-1, len, len+1; exponents -1, 0, 1, 2, 31, 127; radices 1, 2, 10, 16, 36, 37); "
        "random part = Hypothesis receivers and arguments. Oracle = independent Python implementations of each method's documented "
        "meaning (the repository's string_properties / number_properties tests are the documentation): in the domain the typed-print "
        "kind and value must match, outside the domain the run must stop with a failure. Non-trivial = an argument or receiver at a "
        "domain edge (0, len, extreme, radix bound, empty string); distinct by (method, receiver, arguments)")
ASSUMPTIONS = ["text positions: len(), the result of index_of and the offsets of substring / insert / delete / split are UTF-8 byte offsets (an offset inside a character is outside the domain and must fail); `s[i]` counts characters - both as the interpreter's own range errors describe them",
               "float results of pow / powf / sqrt are compared with relative tolerance 1e-12; all other floats by exact value",
               "parse_* inputs with a 0x / 0b prefix are generated only where the repository's tests document the meaning (parse_byte)",
               "dev-profile build"]
ENV = {"MSCRIPT_VERIF_TYPED_PRINT": "1"}

I = lambda v: Num("int", v)
IMIN, IMAX = -2 ** 31, 2 ** 31 - 1
BMIN, BMAX = -2 ** 127, 2 ** 127 - 1


def out_str(s):
    return ("str", s)


def out_list(items):
    return ("list", "[" + ", ".join("\"" + x + "\"" for x in items) + "]")


def opt(n):
    return ("nil", "nil") if n is None else n


def rust_round(x):
    if x != x or x in (math.inf, -math.inf):
        return x
    # half away from zero, computed without rounding: |x| - floor(|x|) is exact for doubles (|x| + 0.5 is not: it turns
    # 0.49999999999999994 into 1.0 and the odd integers of [2^52, 2^53) into their successors)
    r = math.floor(abs(x))
    if abs(x) - r >= 0.5:
        r += 1
    return math.copysign(float(r), x)


def parse_int_like(s, radix, lo, hi):
    digits = "0123456789abcdefghijklmnopqrstuvwxyz"[:radix]
    t = s
    neg = False
    if t[:1] in ("+", "-"):
        neg = t[0] == "-"
        t = t[1:]
    if not t or any(c.lower() not in digits for c in t):
        return None
    v = int(t, radix)
    v = -v if neg else v
    return v if lo <= v <= hi else None


# ---- models: each returns (kind, text) | ("nil","nil") | ("float", value) and may raise Fail -------------------------------
def m_str(method, s, args):
    """unit semantics of text positions (recorded in ASSUMPTIONS): len(), the result of index_of and the offsets taken by
    substring / insert / delete / split are UTF-8 byte offsets - an offset that falls inside a character is outside the
    domain; `s[i]` counts characters (the interpreter's own range error reports `len N chars, M bytes`)"""
    a = [x.v if isinstance(x, Num) else x for x in args]
    b = s.encode("utf-8")
    n = len(b)

    def boundary(i):
        return 0 <= i <= n and (i == n or (b[i] & 0xC0) != 0x80)
    cut = lambda lo, hi: b[lo:hi].decode("utf-8")
    if method == "len":
        return ("int", str(n))
    if method == "substring":
        lo, hi = a
        if not (0 <= lo <= hi <= n and boundary(lo) and boundary(hi)):
            raise Fail("range")
        return out_str(cut(lo, hi))
    if method == "contains":
        return ("bool", "true" if a[0] in s else "false")
    if method == "index_of":
        i = b.find(a[0].encode("utf-8"))
        return ("nil", "nil") if i < 0 else ("int", str(i))
    if method == "reverse":
        return out_str(s[::-1])
    if method == "insert":
        new, at = a
        if not (0 <= at <= n and boundary(at)):
            raise Fail("range")
        return out_str(cut(0, at) + new + cut(at, n))
    if method == "replace":
        if a[0] == "":
            raise Fail("unmodelled")       # empty pattern: no documented meaning; not generated
        return out_str(s.replace(a[0], a[1]))
    if method == "delete":
        lo, hi = a
        if not (0 <= lo <= hi <= n and boundary(lo) and boundary(hi)):
            raise Fail("range")
        return out_str(cut(0, lo) + cut(hi, n))
    if method == "split":
        mid = a[0]
        if mid < 0 or mid >= n:
            return out_list([s, ""])
        if not boundary(mid):
            raise Fail("range")
        return out_list([cut(0, mid), cut(mid, n)])
    if method == "chars":
        return out_list(list(s))
    if method == "parse_int":
        v = parse_int_like(s, 10, IMIN, IMAX)
        return ("nil", "nil") if v is None else ("int", str(v))
    if method == "parse_bigint":
        v = parse_int_like(s, 10, BMIN, BMAX)
        return ("nil", "nil") if v is None else ("bigint", str(v))
    if method in ("parse_int_radix", "parse_bigint_radix"):
        radix = a[0]
        if not (2 <= radix <= 36):
            raise Fail("radix")
        big = method == "parse_bigint_radix"
        v = parse_int_like(s, radix, BMIN if big else IMIN, BMAX if big else IMAX)
        return ("nil", "nil") if v is None else ("bigint" if big else "int", str(v))
    if method == "parse_float":
        import re
        if re.match(r"^[+-]?([0-9]+(\.[0-9]*)?|\.[0-9]+)([eE][+-]?[0-9]+)?$", s):
            return ("float", float(s))
        return ("nil", "nil")
    if method == "parse_bool":
        return ("bool", s) if s in ("true", "false") else ("nil", "nil")
    if method == "parse_byte":
        if s.startswith("0b"):
            v = parse_int_like(s[2:], 2, 0, 255) if s[2:3] not in ("+", "-", "") else None
        else:
            v = parse_int_like(s, 10, 0, 255) if s[:1] != "-" else None       # a byte has no sign
        return ("nil", "nil") if v is None else ("byte", "0b" + bin(v)[2:])
    if method == "repeat":
        k = a[0]
        if k < 0:
            raise Fail("range")
        return out_str(s * k)
    if method == "concat":
        return out_str(s + a[0])
    if method == "index":
        i = a[0]
        if not (0 <= i < len(s)):       # characters, not bytes
            raise Fail("range")
        return out_str(s[i])
    raise ValueError(method)


def m_num(method, x, args):
    a = [y.v if isinstance(y, Num) else y for y in args]
    k, v = x.k, x.v
    if method == "to_int":
        if k == "float":
            if v != v or abs(v) == math.inf:
                raise Fail("conversion")
            t = int(v)
        else:
            t = v
        if not (IMIN <= t <= IMAX):
            raise Fail("conversion")
        return ("int", str(t))
    if method == "to_bigint":
        if k == "float":
            if v != v or abs(v) == math.inf:
                raise Fail("conversion")
            t = int(v)
        else:
            t = v
        if not (BMIN <= t <= BMAX):
            raise Fail("conversion")
        return ("bigint", str(t))
    if method == "to_byte":
        if k == "float":
            if v != v or abs(v) == math.inf:
                raise Fail("conversion")
            t = int(v)
        else:
            t = v
        if not (0 <= t <= 255):
            raise Fail("conversion")
        return ("byte", "0b" + bin(t)[2:])
    if method == "to_float":
        return ("float", float(v))
    if method == "abs":
        if k == "float":
            return ("float", abs(v))
        r = abs(v)
        if k != "byte" and not num.in_range(k, r):
            raise Fail("overflow")
        return (k, num.fmt(Num(k, r)))
    if method == "pow":
        p = a[0]
        if k == "float":
            try:
                return ("float~", float(v) ** p if not (v == 0 and p < 0) else math.inf)
            except OverflowError:
                return ("float~", math.inf)
        if p < 0:
            raise Fail("range")
        r = v ** p
        if not (BMIN <= r <= BMAX):
            raise Fail("overflow")
        return ("bigint", str(r))
    if method == "powf":
        p = a[0]
        try:
            r = math.pow(float(v), p)
        except (OverflowError, ValueError):
            raise Fail("unmodelled")
        return ("float~", r)
    if method == "sqrt":
        f = float(v)
        if f < 0:
            raise Fail("unmodelled")      # NaN: not generated
        return ("float~", math.sqrt(f))
    if method in ("floor", "ceil", "round", "ipart", "fpart"):
        f = float(v)
        if f != f or f in (math.inf, -math.inf):
            if method == "fpart":
                raise Fail("unmodelled")
            return ("float", f)
        r = {"floor": math.floor, "ceil": math.ceil, "round": rust_round, "ipart": math.trunc, "fpart": lambda z: z - math.trunc(z)}[method](f)
        return ("float", float(r))
    if method == "to_str":
        return out_str(num.fmt(x))
    if method == "to_ascii":
        if v > 127:
            raise Fail("unmodelled")      # lossy conversion of non-ASCII bytes: not generated
        return out_str(chr(v))
    raise ValueError(method)


# ---- case construction ---------------------------------------------------------------------------------------------------
def arg_src(a):
    if isinstance(a, Num):
        return ms.lit_text(a.k, a.v)
    return ms.str_lit(a)


def call_src(recv_var, method, args):
    if method == "repeat":
        return "(%s * %s)" % (recv_var, arg_src(args[0]))
    if method == "concat":
        return "(%s + %s)" % (recv_var, arg_src(args[0]))
    if method == "index":
        return "%s[%s_i]" % (recv_var, recv_var)       # index through a variable: constant indices are range-checked at compile time
    return "%s.%s(%s)" % (recv_var, method, ", ".join(arg_src(a) for a in args))


def recv_decl(name, recv, call=None):
    if isinstance(recv, Num):
        if recv.k == "float" and recv.v != recv.v:             # NaN is only reachable through an operation
            return ["%s_m: float = 1.0" % name, "%s_z: float = 0.0" % name, "%s: float = (%s_z - %s_m).sqrt()" % (name, name, name)]
        if recv.k == "float" and recv.v in (math.inf, -math.inf):
            out = ["%s_b: float = 1%s.0" % (name, "0" * 200), "%s_i: float = %s_b * %s_b" % (name, name, name)]
            return out + (["%s: float = %s_i" % (name, name)] if recv.v > 0 else ["%s_z: float = 0.0" % name, "%s: float = %s_z - %s_i" % (name, name, name)])
        return num.init_stmts(name, recv)
    out = ["%s = %s" % (name, ms.str_lit(recv))]
    if call is not None and call[0] == "index":
        out += num.init_stmts(name + "_i", call[2][0], annotate=False)
    return out


def model(call):
    method, recv, args = call
    try:
        return m_num(method, recv, args) if isinstance(recv, Num) else m_str(method, recv, args)
    except Fail as f:
        return ("fail", f.reason)


def fmt_expect(res):
    k, v = res
    if k in ("float", "float~"):
        return "float:" + num.fmt_float(v)
    return "%s:%s" % (k, v)


def program(calls):
    lines, exp = [], []
    for i, c in enumerate(calls):
        method, recv, args = c
        lines.append('print "@%d"' % i)
        lines += recv_decl("r%d" % i, recv, c)
        lines.append("print " + call_src("r%d" % i, method, args))
        exp.append("str:@%d" % i)
        res = model(c)
        if res[0] != "fail":
            exp.append(fmt_expect(res))
    return "\n".join(lines) + "\n", exp


@scenario.assert_kind("c14_lines")
def a_lines(a, res, ctx):
    """line-wise comparison; `float~:` expectations use relative tolerance 1e-12, `len?:a|b` accepts either"""
    r = res[a["step"]]
    got = r.stdout.split("\n")
    if got and got[-1] == "":
        got.pop()
    exp = a["lines"]
    out = []
    for i in range(max(len(exp), len(got))):
        e = exp[i] if i < len(exp) else "<end>"
        g = got[i] if i < len(got) else "<end>"
        if e == g:
            continue
        if e.startswith("float:") and g.startswith("float:"):
            try:
                fe, fg = float(e[6:]), float(g[6:])
                if fe == fg or (i in a.get("approx", []) and abs(fe - fg) <= 1e-12 * max(abs(fe), abs(fg))):
                    continue
                if fe != fe and fg != fg:
                    continue
            except ValueError:
                pass
        alts = a.get("alts") or {}
        if str(i) in alts and g in alts[str(i)]:
            continue
        out.append("line %d: expected %r got %r" % (i + 1, e, g))
        break
    want = a.get("exit", ["ok"])
    if r.klass not in want:
        out.append("exit class %s not in %s: %r" % (r.klass, want, r.stderr[-200:]))
    return out or None


def make_scenario(calls):
    src, exp = program(calls)
    approx = []
    alts = {}
    line = 0
    for c in calls:
        line += 1
        res = model(c)
        if res[0] != "fail":
            if res[0] == "float~":
                approx.append(line)
            line += 1
    failing = any(model(c)[0] == "fail" for c in calls)
    return scenario.simple(src, [{"id": "run", "argv": ["mscript", "run", "main.ms", "-q"], "env": ENV}],
                           [{"kind": "c14_lines", "step": "run", "lines": exp, "approx": approx, "alts": alts,
                             "exit": ["error", "panic"] if failing else ["ok"]}])


def desc(c):
    method, recv, args = c
    return "%s.%s(%s)" % (repr(recv) if isinstance(recv, Num) else ms.str_lit(recv), method, ", ".join(repr(a) if isinstance(a, Num) else ms.str_lit(a) for a in args))


def edge(c):
    method, recv, args = c
    if isinstance(recv, str):
        n = len(recv)
        return recv == "" or any(isinstance(a, Num) and a.v in (-1, 0, n - 1, n, n + 1, 1, 2, 36, 37) for a in args)
    lo_hi = num.RANGE.get(recv.k)
    return (lo_hi is not None and recv.v in (lo_hi[0], lo_hi[0] + 1, lo_hi[1], lo_hi[1] - 1)) or any(isinstance(a, Num) and a.v in (-1, 0, 31, 127) for a in args) or \
        (recv.k == "float" and (abs(recv.v) >= 1e15 or recv.v == 0))


def check(case):
    calls = case["calls"]
    ok_calls = [c for c in calls if model(c)[0] not in ("fail",)]
    lone = [c for c in calls if model(c)[0] == "fail" and model(c)[1] != "unmodelled"]
    r = CaseResult(evals=len(ok_calls) + len(lone), nt_keys=[desc(c) for c in ok_calls + lone if edge(c)],
                   labels=["method=" + c[0] for c in ok_calls + lone] + ["expect=" + ("fail:" + model(c)[1] if model(c)[0] == "fail" else "value") for c in ok_calls + lone],
                   sample={"call": desc(calls[0]), "model": list(map(str, model(calls[0])))})
    suspects = list(lone)
    if ok_calls:
        res, fails, _ = scenario.execute(make_scenario(ok_calls))
        if fails:
            suspects = ok_calls + suspects
    first_known = None
    for c in suspects:
        sc = make_scenario([c])
        res, fails, _ = scenario.execute(sc)
        if not fails:
            continue
        run = res["run"]
        if "Did not compile" in run.stderr:
            r.rejected = True
            if os.environ.get("MSV_DEBUG"):
                print("REJECTED", desc(c), run.stdout[-300:])
            continue
        m = model(c)
        expect = "fail(%s)" % m[1] if m[0] == "fail" else "value"
        got = "value" if run.klass == "ok" else "failed(%s)" % run.klass
        if m[0] != "fail" and run.klass == "ok":
            got = "wrong-kind" if not any(l.startswith(m[0].rstrip("~") + ":") for l in run.stdout.split("\n")[1:2]) else "wrong-value"
        rk = (c[1].k if isinstance(c[1], Num) else "str")
        f = fail("%s: model %s; %s" % (desc(c), m, "; ".join(fails)), "C14:%s:%s:%s:%s" % (c[0], rk, expect, got), sc, case={"call": desc(c)})
        if match_known(f["signature"]):
            first_known = first_known or f
            continue
        r.failure = f
        return r
    if first_known:
        r.failure = first_known
    return r


ASCII = ["", "a", "ab", "hello world", "aXbXc", "12", "  "]
MULTI = ["é", "日本語", "a😀b", "héllo wörld", "añb"]
IDX = [-1, 0, 1, 2]


def str_calls(strings, full):
    out = []
    for s in strings:
        n, nb = len(s), len(s.encode("utf-8"))
        idx = sorted(set(IDX + [n - 1, n, n + 1, nb - 1, nb, nb + 1] + ([3, 4, 7] if nb > n else [])))
        ascii_only = True        # index-taking methods are generated for every receiver (multi-byte: see m_str)
        out += [("len", s, []), ("reverse", s, []), ("chars", s, [])]
        for p in ["", "a", "X", "lo w", "é", "l", "w", s]:
            out.append(("contains", s, [p]))
            if ascii_only:
                out.append(("index_of", s, [p]))
            if p != "":
                out.append(("replace", s, [p, "_"]))
                out.append(("replace", s, [p, ""]))
            out.append(("concat", s, [p]))
        for k in (-1, 0, 1, 3):
            out.append(("repeat", s, [I(k)]))
        if ascii_only:
            for i in idx:
                out.append(("split", s, [I(i)]))
                out.append(("insert", s, ["+", I(i)]))
                out.append(("index", s, [I(i)]))
                for j in idx:
                    out.append(("substring", s, [I(i), I(j)]))
                    out.append(("delete", s, [I(i), I(j)]))
    nums = ["25", "-25", "+7", "0", "-0", "25.0", "twenty", "", " 5", "5 ", "2147483647", "2147483648", "-2147483648", "-2147483649",
            "170141183460469231731687303715884105727", "170141183460469231731687303715884105728", "ff", "FF", "zz", "z", "101", "1e3", "3.14159", ".5", "5.", "-1.5e-3",
            "inf", "nan", "true", "false", "True", "yes", "255", "256", "0b101", "0b", "0b2", "0b111111111", "-1"]
    for s in nums:
        out += [("parse_int", s, []), ("parse_bigint", s, []), ("parse_bool", s, []), ("parse_byte", s, [])]
        if s not in ("inf", "nan", "-inf"):
            out.append(("parse_float", s, []))
        for radix in ((-36, -16, -2, -1, 0, 1, 2, 10, 16, 36, 37) if full else (-16, -2, 0, 1, 2, 16, 36, 37)):
            out += [("parse_int_radix", s, [I(radix)]), ("parse_bigint_radix", s, [I(radix)])]
    # receivers that carry the marker `0x` / `0b`: what `"0x10".parse_int()` should be (16, 10 or nil) is not specified and
    # stays outside the domain, but a text that is not a number in ANY reading - the marker repeated, the marker alone, the
    # marker before something that is not a number in a radix up to 33 - is in the domain and yields nil
    for s in ("0x0x10", "0x0x0x-3", "0x0x", "0x", "0x 5", "0x-", "0x+", "0xz1", "0x1x0", "0x0b1", "0X10", "0b0b1", "0b0b", "0b 1", "0b0x1"):
        out += [("parse_int", s, []), ("parse_bigint", s, []), ("parse_byte", s, [])]
        for radix in (2, 10, 16, 33):
            out += [("parse_int_radix", s, [I(radix)]), ("parse_bigint_radix", s, [I(radix)])]
    return [c for c in out if not marker_ambiguous(c)]


def marker_ambiguous(c):
    """True for a parse call whose receiver starts with a radix marker and could be a number in some reading"""
    method, s = c[0], c[1]
    if not isinstance(s, str) or not method.startswith("parse"):
        return False
    if s.startswith("0b"):
        if method == "parse_byte":
            return False                    # modelled: one marker, then binary digits
        return parse_int_like(s[2:], 36, -10 ** 60, 10 ** 60) is not None or s[2:3] in ("+", "-") and parse_int_like(s[3:], 36, -10 ** 60, 10 ** 60) is not None
    if s.startswith("0x"):
        if method not in ("parse_int", "parse_bigint", "parse_int_radix", "parse_bigint_radix"):
            return True
        radix = 16
        if method.endswith("_radix"):
            r = c[2][0].v if isinstance(c[2][0], Num) else c[2][0]
            if not (2 <= r <= 33):
                return True
            radix = max(16, r)
        return parse_int_like(s[2:], radix, -10 ** 60, 10 ** 60) is not None
    return False


def num_calls(tier):
    out = []
    recvs = num.boundary("int", tier) + num.boundary("bigint", tier) + num.boundary("byte", tier) + \
        [Num("float", v) for v in (0.0, 0.5, -0.5, 1.5, 2.5, -2.5, 3.49999, 3.5, -3.5, 1e15 + 0.5, 2147483647.9, 2147483648.0, -2147483648.9, 3e9, 1e19, 1e30, -1e30, 1e300, 255.9, 256.0, -0.9, 9007199254740993.0,
                                    0.49999999999999994, -0.49999999999999994, 0.5000000000000001, 1.4999999999999998, 2.0 ** 52 + 1, 2.0 ** 52 + 0.5, 2.0 ** 53 - 1, -(2.0 ** 52 + 1), 2.0 ** 51 + 0.5,
                                    4503599627370495.5, 0.1, 1e-300, 5e-324, 123456789.5, -123456789.5)]
    for x in recvs:
        for m in ("to_int", "to_bigint", "to_byte", "to_float", "abs", "to_str", "sqrt"):
            if m == "sqrt" and x.v < 0:
                continue
            out.append((m, x, []))
        for p in (-1, 0, 1, 2, 31, 127):
            out.append(("pow", x, [I(p)]))
        for p in (0.0, 0.5, 1.0, 2.0, -1.0):
            if x.v < 0 and p not in (0.0, 1.0, 2.0, -1.0):
                continue
            if x.v == 0 and p < 0:
                continue
            out.append(("powf", x, [Num("float", p)]))
        if x.k == "float":
            for m in ("floor", "ceil", "round", "ipart", "fpart"):
                out.append((m, x, []))
        if x.k == "byte" and x.v <= 127:
            out.append(("to_ascii", x, []))
    for v in (math.nan, math.inf, -math.inf):        # non-finite receivers: conversions must fail, the rest propagates
        for m in ("to_int", "to_bigint", "to_byte", "to_float", "abs", "to_str", "floor", "ceil", "round", "ipart"):
            out.append((m, Num("float", v), []))
    return out


def chunks(l, n):
    return [l[i:i + n] for i in range(0, len(l), n)]


def replace_calls(tier):
    """`replace` exhaustively over a two-letter alphabet: every receiver up to length 5 x every pattern of length 1-2 x every
    replacement of length 0-2 (pattern and replacement overlapping each other in every way), plus a few longer patterns and a
    multi-byte pair. Matches are found left to right and never overlap; replaced text is not scanned again."""
    import itertools
    words = lambda lo, hi: ["".join(t) for n in range(lo, hi + 1) for t in itertools.product("ab", repeat=n)]
    out = []
    for s_ in words(0, 5 if tier == "thorough" else 4) + ["ababab", "aaaaaa", "1001", "---", "banana"]:
        for p_ in words(1, 2) + ["aba", "aab", "10", "--", "an"]:
            for r_ in words(0, 2) + ["bab", "01", " -", "na", p_ + p_]:
                out.append(("replace", s_, [p_, r_]))
    out += [("replace", "éèé", ["éè", "èé"]), ("replace", "日日日", ["日日", "本日"]), ("replace", "aXbXc", ["X", "XX"])]
    return out


def enumerated(tier, seed):
    calls = str_calls(ASCII + MULTI, tier == "thorough") + num_calls(tier) + replace_calls(tier)
    return [{"calls": c} for c in chunks(calls, 80)]


@st.composite
def random_case(draw):
    g = G(draw)
    if g.chance(55):
        s = draw(st.text(alphabet="abcXY z01-+." if g.chance(70) else "abXé日😀 z", max_size=8))
        n = len(s.encode("utf-8"))
        method = g.choice(["substring", "delete", "insert", "split", "index", "index_of", "contains", "replace", "reverse", "chars", "repeat", "len",
                           "parse_int", "parse_float", "parse_int_radix", "parse_bigint_radix", "parse_byte", "parse_bigint"])
        ix = lambda: I(g.int(-1, n + 1))
        args = {"substring": lambda: [ix(), ix()], "delete": lambda: [ix(), ix()], "insert": lambda: [draw(st.text(alphabet="ab", max_size=2)), ix()],
                "split": lambda: [ix()], "index": lambda: [ix()], "index_of": lambda: [draw(st.text(alphabet="abcXY zé", max_size=2))],
                "contains": lambda: [draw(st.text(alphabet="abcXY z", max_size=2))], "replace": lambda: [draw(st.text(alphabet="abcXY z", min_size=1, max_size=2)), draw(st.text(alphabet="ab", max_size=2))],
                "repeat": lambda: [I(g.int(-1, 4))], "parse_int_radix": lambda: [I(g.int(-38, 38))], "parse_bigint_radix": lambda: [I(g.int(-38, 38))]}.get(method, lambda: [])()
        if method.startswith("parse") and g.chance(12):
            s = g.choice(["0x", "0x0x", "0b0b", "0x0x0x", "0b0x"]) + s      # repeated markers: never a number
        if marker_ambiguous((method, s, args)):
            s = s[2:]
            if marker_ambiguous((method, s, args)):
                s = "7"
        return {"calls": [(method, s, args)]}
    from .c05 import operand
    k = g.choice(["int", "bigint", "float", "byte"])
    x = draw(operand(k))
    method = g.choice(["to_int", "to_bigint", "to_byte", "to_float", "abs", "pow", "powf", "sqrt", "to_str"] + (["floor", "ceil", "round", "ipart", "fpart"] if k == "float" else []))
    args = []
    if method == "pow":
        args = [I(g.int(-1, 40))]
    if method == "powf":
        args = [Num("float", g.choice([0.0, 0.5, 1.0, 2.0, 3.0]))]
        if x.v < 0:
            args = [Num("float", g.choice([0.0, 1.0, 2.0]))]
    if method == "sqrt" and x.v < 0:
        method = "abs"
    return {"calls": [(method, x, args)]}


def strategy(tier):
    return random_case()


def n_random(tier):
    return 4800 if tier == "quick" else 120000
