"""C17 — run-time failures are reported as MScript errors with an exact call trace."""
import os, re
from hypothesis import strategies as st
from ..engine import CaseResult, fail
from .. import scenario, ms
from ..gen import G, I

ID = "C17"
LEVEL = "exploration"
RULE = ("cases = (failure kind, call chain): each defined dynamic failure (assert, get nil, nil under an ordering / arithmetic operator, list / string index range, zero "
        "divisor of each numeric kind for / and %, overflow of int / bigint / byte arithmetic and negation, shift amount, "
        "list remove range, string offsets inside a character, conversion and radix ranges, a recursion without a base case) (its operand read from a parameter, from a variable captured out of a factory call that has returned, or from a private top-level variable of its file) is placed at call depth 0-6 below a chain mixing plain functions, closures, methods, list.map "
        "callbacks and functions of an imported module - or the whole chain runs at the top level of a module WHILE it is being imported -, optionally under if / while / from blocks, with output printed on the "
        "way down; enumerated part = every kind x every single-element chain kind x depth {0,1,2}; random part = Hypothesis "
        "chains. Oracle: stdout = the prescribed lines, exit status 1 (not 101/134), the FATAL RUNTIME ERROR banner, and a "
        "trace whose function entries are exactly the active chain innermost first down to __module__ and whose block-frame "
        "entries (<if>/<else>/<while>) are exactly the blocks open at the failure - loops completed by break / continue before the "
        "failure must leave nothing behind (native entries in the middle of the chain are dropped; for a failure inside a built-in method the innermost entry must be the native frame of that built-in); labels of function values are learnt from `print f` lines; a failed assert must name "
        "file:line:col of that assert. A second small family - callbacks of filter / map that change the collection being walked - may complete or fail, but must not end in an internal panic. Non-trivial = depth >= 2 or a callback / method / import in the chain; distinct by "
        "(kind, chain, wrappers)")
ASSUMPTIONS = ["function labels are read from the program's own `print <function>` output instead of modelling id assignment",
               "dev-profile build"]

S = lambda s: ("lit", "str", s)
V = lambda n: ("var", n)

BIGMAX = 2 ** 127 - 1
# kind -> (local setup statements, failing statement) ; `a` is an int parameter / variable holding 1
KINDS = {
    "assert": ([], ("assert", ("bin", "<", V("a"), I(0)))),
    "assert-after-text": ([], ("assert", ("bin", "<", V("a"), I(0)), "d\u00e9j\u00e0 vu \u65e5\u672c\u8a9e \U0001f600")),
    "get-nil": ([("decl", "o", ("opt", "int"), ("nil",), ())], ("decl", "v", None, ("get", V("o")), ())),
    # nil reaching an ORDERING operator (through an optional, through a missing map entry), on either side
    "order-with-nil": ([("decl", "o", ("opt", "int"), ("nil",), ())], ("decl", "v", None, ("bin", "<", V("a"), V("o")), ())),
    "order-nil-left": ([("decl", "o", ("opt", "int"), ("nil",), ())], ("decl", "v", None, ("bin", ">=", V("o"), V("a")), ())),
    "order-with-missing-entry": ([("decl", "mm", None, ("map", "str", "int", [(S("k"), I(1))]), ())], ("decl", "v", None, ("bin", "<=", V("a"), ("index", V("mm"), S("zz"))), ())),
    "add-with-nil": ([("decl", "o", ("opt", "int"), ("nil",), ())], ("decl", "v", None, ("bin", "+", V("a"), V("o")), ())),
    "list-index": ([("decl", "l", ("list", "int"), ("list", [I(1)]), ())], ("decl", "v", None, ("index", V("l"), ("bin", "+", V("a"), I(5))), ())),
    "str-index": ([("decl", "s", None, S("ab"), ())], ("decl", "v", None, ("index", V("s"), ("bin", "+", V("a"), I(5))), ())),
    "div-zero-int": ([], ("decl", "v", None, ("bin", "/", I(10), ("bin", "-", V("a"), V("a"))), ())),
    "rem-zero-int": ([], ("decl", "v", None, ("bin", "%", I(10), ("bin", "-", V("a"), V("a"))), ())),
    "div-zero-float": ([("decl", "fz", "float", ("lit", "float", 0.0), ())], ("decl", "v", None, ("bin", "/", ("lit", "float", 1.5), ("bin", "*", V("fz"), V("a"))), ())),
    "rem-zero-float": ([("decl", "fz", "float", ("lit", "float", 0.0), ())], ("decl", "v", None, ("bin", "%", ("lit", "float", 1.5), ("bin", "*", V("fz"), V("a"))), ())),
    "div-zero-bigint": ([("decl", "bz", "bigint", ("lit", "bigint", 0), ())], ("decl", "v", None, ("bin", "/", V("a"), V("bz")), ())),
    "div-zero-byte": ([("decl", "yz", "byte", ("lit", "byte", 0), ())], ("decl", "v", None, ("bin", "/", V("a"), V("yz")), ())),
    "overflow-int-add": ([("decl", "big", None, I(2147483647), ())], ("decl", "v", None, ("bin", "+", V("big"), V("a")), ())),
    "overflow-int-sub": ([("decl", "big", None, I(2147483647), ())], ("decl", "v", None, ("bin", "-", ("bin", "-", I(0), V("big")), ("bin", "+", V("a"), V("a"))), ())),
    "overflow-int-mul": ([("decl", "big", None, I(2147483647), ())], ("decl", "v", None, ("bin", "*", V("big"), ("bin", "+", V("a"), V("a"))), ())),
    "overflow-bigint-add": ([("decl", "bb", "bigint", ("lit", "bigint", BIGMAX), ())], ("decl", "v", None, ("bin", "+", V("bb"), V("a")), ())),
    "overflow-byte-add": ([("decl", "by", "byte", ("lit", "byte", 255), ())], ("decl", "v", None, ("bin", "+", V("by"), V("by")), ())),
    "overflow-neg": ([("decl", "mn", None, ("bin", "-", ("bin", "-", I(0), I(2147483647)), V("a")), ())], ("decl", "v", None, ("neg", V("mn")), ())),
    "overflow-div-min": ([("decl", "mn", None, ("bin", "-", ("bin", "-", I(0), I(2147483647)), V("a")), ())], ("decl", "v", None, ("bin", "/", V("mn"), ("bin", "-", I(0), V("a"))), ())),
    "overflow-rem-min": ([("decl", "mn", None, ("bin", "-", ("bin", "-", I(0), I(2147483647)), V("a")), ())], ("decl", "v", None, ("bin", "%", V("mn"), ("bin", "-", I(0), V("a"))), ())),
    "overflow-abs-min": ([("decl", "mn", None, ("bin", "-", ("bin", "-", I(0), I(2147483647)), V("a")), ())], ("decl", "v", None, ("mcall", V("mn"), "abs", []), ())),
    "overflow-opassign": ([("decl", "big", None, I(2147483647), ())], ("opassign", V("big"), "+=", V("a"))),
    # an op-assignment on a CELL (element, map entry, field) that still holds what a built-in handed back - a present optional
    # with its wrapper - and whose result leaves the range of the kind
    "overflow-opassign-wrapped-elem": ([("decl", "ws", None, S("2147483647"), ()), ("decl", "wl", ("list", ("opt", "int")), ("list", [("mcall", V("ws"), "parse_int", [])]), ())],
                                       ("opassign", ("index", V("wl"), I(0)), "+=", V("a"))),
    "overflow-opassign-wrapped-entry": ([("decl", "ws", None, S("2147483647"), ()), ("decl", "wm", None, ("map", "str", "int?", [(S("k"), ("mcall", V("ws"), "parse_int", []))]), ())],
                                        ("opassign", ("index", V("wm"), S("k")), "+=", V("a"))),
    "overflow-opassign-wrapped-field": ([("class", "HW", [("v", ("opt", "int"))], [("v", ("opt", "int"))], [("setf", V("self"), "v", V("v"))], []),
                                         ("decl", "ws", None, S("2147483647"), ()), ("decl", "wh", None, ("new", "HW", [("mcall", V("ws"), "parse_int", [])]), ())],
                                        ("opassign", ("field", V("wh"), "v"), "+=", V("a"))),
    "overflow-opassign-wrapped-elem-mul": ([("decl", "ws", None, S("2147483647"), ()), ("decl", "wl", ("list", ("opt", "int")), ("list", [("mcall", V("ws"), "parse_int", [])]), ())],
                                           ("opassign", ("index", V("wl"), I(0)), "*=", ("bin", "+", V("a"), V("a")))),
    "overflow-bigint-mul": ([("decl", "bb", "bigint", ("lit", "bigint", BIGMAX), ())], ("decl", "v", None, ("bin", "*", V("bb"), ("bin", "+", V("a"), V("a"))), ())),
    "str-delete-inside-char": ([("decl", "s", None, S("h\u00e9llo"), ())], ("decl", "v", None, ("mcall", V("s"), "delete", [I(0), ("bin", "+", V("a"), I(1))]), ())),
    "str-split-inside-char": ([("decl", "s", None, S("h\u00e9llo"), ())], ("print", ("mcall", V("s"), "split", [("bin", "+", V("a"), I(1))]))),
    # every index-taking string built-in with a byte index INSIDE a character (2-byte and 4-byte characters, first and later bytes)
    "str-insert-inside-char": ([("decl", "s", None, S("h\u00e9llo"), ())], ("decl", "v", None, ("mcall", V("s"), "insert", [S("-"), ("bin", "+", V("a"), I(1))]), ())),
    "str-insert-inside-wide-char": ([("decl", "s", None, S("a\U0001f600b"), ())], ("decl", "v", None, ("mcall", V("s"), "insert", [S("-"), ("bin", "+", V("a"), I(2))]), ())),
    "str-substring-end-inside-char": ([("decl", "s", None, S("h\u00e9llo"), ())], ("decl", "v", None, ("mcall", V("s"), "substring", [I(0), ("bin", "+", V("a"), I(1))]), ())),
    "str-substring-start-inside-char": ([("decl", "s", None, S("h\u00e9llo"), ())], ("decl", "v", None, ("mcall", V("s"), "substring", [("bin", "+", V("a"), I(1)), I(4)]), ())),
    "str-substring-inside-wide-char": ([("decl", "s", None, S("a\U0001f600b"), ())], ("decl", "v", None, ("mcall", V("s"), "substring", [("bin", "+", V("a"), I(2)), ("bin", "+", V("a"), I(2))]), ())),
    "str-delete-start-inside-char": ([("decl", "s", None, S("h\u00e9llo"), ())], ("decl", "v", None, ("mcall", V("s"), "delete", [("bin", "+", V("a"), I(1)), I(4)]), ())),
    "str-delete-inside-wide-char": ([("decl", "s", None, S("a\U0001f600b"), ())], ("decl", "v", None, ("mcall", V("s"), "delete", [I(0), ("bin", "+", V("a"), I(3))]), ())),
    # bounds in the WRONG ORDER (both inside the string, both on character boundaries)
    "str-substring-reversed": ([("decl", "s", None, S("hello world"), ())], ("decl", "v", None, ("mcall", V("s"), "substring", [("bin", "+", V("a"), I(6)), ("bin", "+", V("a"), I(1))]), ())),
    "str-delete-reversed": ([("decl", "s", None, S("hello world"), ())], ("decl", "v", None, ("mcall", V("s"), "delete", [("bin", "+", V("a"), I(6)), ("bin", "+", V("a"), I(1))]), ())),
    "shift-amount": ([], ("decl", "v", None, ("bin", "<<", V("a"), ("bin", "+", V("a"), I(40))), ())),
    "str-substring-range": ([("decl", "s", None, S("abc"), ())], ("decl", "v", None, ("mcall", V("s"), "substring", [I(1), ("bin", "+", V("a"), I(8))]), ())),
    "str-insert-range": ([("decl", "s", None, S("abc"), ())], ("decl", "v", None, ("mcall", V("s"), "insert", [S("x"), ("bin", "+", V("a"), I(8))]), ())),
    "parse-radix": ([("decl", "s", None, S("12"), ())], ("decl", "v", None, ("mcall", V("s"), "parse_int_radix", [("bin", "+", V("a"), I(98))]), ())),
    # every radix outside 2..36, for both radix parsers: 1, 0, negative, 37
    "parse-radix-one": ([("decl", "s", None, S("12"), ())], ("decl", "v", None, ("mcall", V("s"), "parse_int_radix", [V("a")]), ())),
    "parse-radix-zero": ([("decl", "s", None, S("12"), ())], ("decl", "v", None, ("mcall", V("s"), "parse_int_radix", [("bin", "-", V("a"), V("a"))]), ())),
    "parse-radix-negative": ([("decl", "s", None, S("12"), ())], ("decl", "v", None, ("mcall", V("s"), "parse_int_radix", [("bin", "-", I(0), ("bin", "+", V("a"), V("a")))]), ())),
    "parse-radix-37": ([("decl", "s", None, S("12"), ())], ("decl", "v", None, ("mcall", V("s"), "parse_int_radix", [("bin", "+", V("a"), I(36))]), ())),
    "parse-bigint-radix-one": ([("decl", "s", None, S("12"), ())], ("decl", "v", None, ("mcall", V("s"), "parse_bigint_radix", [V("a")]), ())),
    "parse-bigint-radix-zero": ([("decl", "s", None, S("12"), ())], ("decl", "v", None, ("mcall", V("s"), "parse_bigint_radix", [("bin", "-", V("a"), V("a"))]), ())),
    "parse-bigint-radix-37": ([("decl", "s", None, S("12"), ())], ("decl", "v", None, ("mcall", V("s"), "parse_bigint_radix", [("bin", "+", V("a"), I(36))]), ())),
    "to-byte-conversion": ([("decl", "big", None, I(300), ())], ("decl", "v", None, ("mcall", ("bin", "+", V("big"), V("a")), "to_byte", []), ())),
    "to-int-conversion": ([("decl", "bb", "bigint", ("lit", "bigint", 2 ** 40), ())], ("decl", "v", None, ("mcall", ("bin", "+", V("bb"), V("a")), "to_int", []), ())),
    "pow-negative": ([], ("decl", "v", None, ("mcall", ("bin", "+", V("a"), I(1)), "pow", [("bin", "-", I(0), V("a"))]), ())),
    # a recursion without a base case: must end as a reported run-time error, not as an overflow of the interpreter's own stack
    "unbounded-recursion": ([("decl", "rec", None, ("fn", [("n", "int")], "int", [("return", ("bin", "+", ("selfcall", [("bin", "+", V("n"), I(1))]), I(1)))]), ())],
                            ("decl", "v", None, ("call", V("rec"), [V("a")]), ())),
    "list-remove": ([("decl", "l", ("list", "int"), ("list", [I(1)]), ())], ("decl", "v", None, ("mcall", V("l"), "remove", [("bin", "+", V("a"), I(5))]), ())),
}
# failures raised INSIDE a built-in method: the innermost entry of the trace is the native frame of that built-in
NATIVE = {"str-substring-reversed": "StrSubstring", "str-delete-reversed": "StrDelete", "str-insert-inside-char": "StrInsert", "str-insert-inside-wide-char": "StrInsert", "str-substring-end-inside-char": "StrSubstring", "str-substring-start-inside-char": "StrSubstring",
          "str-substring-inside-wide-char": "StrSubstring", "str-delete-start-inside-char": "StrDelete", "str-delete-inside-wide-char": "StrDelete",
          "parse-radix-one": "StrParseIntRadix", "parse-radix-zero": "StrParseIntRadix", "parse-radix-negative": "StrParseIntRadix", "parse-radix-37": "StrParseIntRadix",
          "parse-bigint-radix-one": "StrParseBigintRadix", "parse-bigint-radix-zero": "StrParseBigintRadix", "parse-bigint-radix-37": "StrParseBigintRadix",
          "overflow-abs-min": "GenericAbs", "str-delete-inside-char": "StrDelete", "str-split-inside-char": "StrSplit", "str-substring-range": "StrSubstring",
          "str-insert-range": "StrInsert", "parse-radix": "StrParseIntRadix", "to-byte-conversion": "GenericToByte", "to-int-conversion": "GenericToInt",
          "pow-negative": "GenericPow", "list-remove": "VecRemove"}
ELEMS = ["F", "C", "M", "CB"]
WRAPS = ["none", "if", "else", "while", "from"]


def wrap(kind, body):
    if kind == "none":
        return body
    if kind == "if":
        return [("if", ("bin", ">", V("a"), I(0)), body, None)]
    if kind == "else":
        return [("if", ("bin", "<", V("a"), I(0)), [("print", S("no"))], body)]
    if kind == "while":
        return [("while", ("bin", ">", V("a"), I(0)), body)]
    return [("from", I(0), I(2), False, None, None, body)]


BLOCK_OF = {"none": [], "if": ["<if>"], "else": ["<else>"], "while": ["<while>"], "from": ["<while>"]}
PREFIXES = ["none", "while-break", "from-break", "while-continue", "nested-break"]


def prefix_loop(kind, tag):
    """a loop that COMPLETES (by break / continue / normally) before the call or the failure: it must leave no frame behind"""
    q = "q" + tag
    if kind == "while-break":
        return [("decl", q, None, I(0), ()), ("while", ("bin", "<", V(q), I(3)), [("decl", q, None, ("bin", "+", V(q), I(1)), ()), ("if", ("bin", "==", V(q), I(2)), [("break",)], None)])]
    if kind == "from-break":
        return [("from", I(0), I(3), False, None, q, [("if", ("bin", "==", V(q), I(1)), [("break",)], None)])]
    if kind == "while-continue":
        return [("decl", q, None, I(0), ()), ("while", ("bin", "<", V(q), I(2)), [("decl", q, None, ("bin", "+", V(q), I(1)), ()), ("if", ("bin", "==", V(q), I(1)), [("continue",)], None), ("print", S("tick"))])]
    if kind == "nested-break":
        return [("decl", q, None, I(0), ()), ("while", ("bin", "<", V(q), I(2)), [("decl", q, None, ("bin", "+", V(q), I(1)), ()),
                ("from", I(0), I(2), False, None, None, [("if", ("bin", ">", V(q), I(0)), [("break",)], [("print", S("never"))])]), ("break",)])]
    return []


def call_next(nxt, idx, arg):
    """statements computing `r` by calling chain element idx of kind nxt with argument arg"""
    if nxt in ("F", "C", "IMP"):
        return [("decl", "r", None, ("call", V("e%d" % idx), [arg]), ())]
    if nxt == "M":
        return [("decl", "r", None, ("mcall", V("k%d" % idx), "m", [arg]), ())]
    # CB: the element is the callback of a list.map call
    return [("decl", "lst%d" % idx, ("list", "int"), ("list", [arg]), ()),
            ("decl", "mr%d" % idx, None, ("mcall", V("lst%d" % idx), "map", [V("e%d" % idx)]), ()),
            ("decl", "r", None, ("index", V("mr%d" % idx), I(0)), ())]


def subst_operand(t):
    """the failing statement with its operand `a` read from the variable `lim` instead"""
    if isinstance(t, tuple):
        if t == ("var", "a"):
            return ("var", "lim")
        return tuple(subst_operand(x) for x in t)
    if isinstance(t, list):
        return [subst_operand(x) for x in t]
    return t


def operand_source(case):
    """where the failing statement reads its operand from: "param" (the parameter `a`), "factory" (a variable the innermost
    function captured from a factory call that has long returned) or "module" (a top-level variable of the innermost
    function's file that is not exported and used nowhere else); both hold the same value as `a`"""
    o = case.get("operand", "param")
    d = len(case["chain"])
    if d == 0:
        return "param"
    if o == "factory" and case["chain"][-1] == "M":
        return "module"
    return o


def build(case):
    """case = {"kind", "chain": [elem kinds], "split": index from which elements live in lib.ms (== len -> none), "wrap", "inner_wrap"}"""
    kind, chain, split = case["kind"], case["chain"], case["split"]
    setup, failing = KINDS[kind]
    d = len(chain)
    osrc = operand_source(case)
    if osrc != "param":
        failing = subst_operand(failing)
    files = {"main": [], "lib": []}
    labels_to_print = {"main": [], "lib": []}
    expect_lines = []
    exp_chain = []
    pk = case.get("prefix", "none")
    failing_body = setup + prefix_loop(pk, "f") + [("print", S("pre-failure")), failing, ("print", S("unreachable"))]
    # innermost first
    at_import = bool(case.get("import_time"))      # everything lives in lib.ms and runs while main.ms imports it
    if at_import:
        split = 0
    for idx in range(d - 1, -1, -1):
        where = "lib" if idx >= split else "main"
        ek = chain[idx]
        name = "e%d" % idx
        if idx == d - 1:
            inner = wrap(case["inner_wrap"], failing_body)
        else:
            inner = wrap(case["wrap"] if idx % 2 == 0 else "none", prefix_loop(pk, str(idx)) + call_next(chain[idx + 1], idx + 1, V("a")) + [("print", S("leave " + name))])
        body = [("print", S("enter " + name))] + inner + [("return", V("a"))]
        if ek == "M":
            cname = "K%d" % idx
            files[where].append(("class", cname, [], None, None, [("m", [("a", "int")], "int", body)]))
            files[where].append(("decl", "k%d" % idx, None, ("new", cname, []), ()))
        else:
            if ek == "C":
                body = [("print", ("bin", "+", S("cap="), V("captured")))] + body
            exported = where == "lib" and idx == split and not at_import     # exports require an explicit type
            if idx == d - 1 and osrc == "factory":
                files[where].append(("decl", "mk%d" % idx, None, ("fn", [("lim", "int")], ("fn", ["int"], "int"), [("return", ("fn", [("a", "int")], "int", body))]), ()))
                files[where].append(("decl", name, ("fn", ["int"], "int") if exported else None, ("call", V("mk%d" % idx), [I(1)]), ("export",) if exported else ()))
            else:
                files[where].append(("decl", name, ("fn", ["int"], "int") if exported else None, ("fn", [("a", "int")], "int", body), ("export",) if exported else ()))
            labels_to_print[where].append(name)
    main = [("decl", "captured", None, I(7), ())]
    lib = [("decl", "captured", None, I(7), ())]
    if osrc != "param":
        inner_in_lib = at_import or d - 1 >= split
        # the other file has a variable of the same name with a value under which the failing statement would not fail
        (lib if inner_in_lib else main).append(("decl", "lim", None, I(1) if osrc == "module" else I(0 - 5), ()))
        (main if inner_in_lib else lib).append(("decl", "lim", None, I(0 - 5), ()))
    if at_import:
        main = [("rawstmt", "import lib"), ("print", S("import returned"))]
    elif split < d:
        if chain[split] == "M":
            raise ValueError("the entry of the library chain must be a function")
        main.append(("rawstmt", "import e%d from lib" % split))
    main += files["main"]
    lib += files["lib"]
    for nm in labels_to_print["lib"]:
        lib += [("print", S("L:" + nm)), ("print", V(nm))]
    for nm in labels_to_print["main"]:
        main += [("print", S("L:" + nm)), ("print", V(nm))]
    driver = lib if at_import else main
    driver.append(("print", S("@start")))
    driver.append(("decl", "a", None, I(1), ()))
    if d == 0:
        top = wrap(case["inner_wrap"], failing_body)
    else:
        nxt = "IMP" if split == 0 and not at_import else chain[0]
        top = wrap(case["wrap"], prefix_loop(pk, "m") + call_next(nxt if nxt != "IMP" else "F", 0, V("a")) + [("print", S("back"))])
    driver += top
    driver.append(("print", S("@end")))
    # expectations
    ticks = ["tick"] if pk == "while-continue" else []
    expect = ["@start"]
    if d > 0:
        expect += ticks                      # module level runs its prefix before calling e0
    for idx in range(d):
        if chain[idx] == "C":
            expect.append("cap=7")
        expect.append("enter e%d" % idx)
        expect += ticks                      # every element runs its prefix before calling on / failing
    if d == 0:
        expect += ticks
    expect.append("pre-failure")
    for idx in range(d - 1, -1, -1):
        fl = "lib.mmm" if idx >= split else "main.mmm"
        w = case["inner_wrap"] if idx == d - 1 else (case["wrap"] if idx % 2 == 0 else "none")
        for b in BLOCK_OF[w]:
            exp_chain.append({"block": b})
        if chain[idx] == "M":
            exp_chain.append({"label": "%s#K%d::m" % (fl, idx)})
        else:
            exp_chain.append({"fn": "e%d" % idx})
    for b in BLOCK_OF[case["inner_wrap"] if d == 0 else case["wrap"]]:
        exp_chain.append({"block": b})
    if at_import:
        exp_chain.append({"label": "lib.mmm#__module__"})
    exp_chain.append({"label": "main.mmm#__module__"})
    msrc, mmarks = ms.program(main)
    files_out = {"p/q/r/main.ms": msrc}
    assert_pos = None
    if split < d or at_import:
        lsrc, lmarks = ms.program(lib)
        files_out["p/q/r/lib.ms"] = lsrc
    if kind.startswith("assert"):
        if (d > 0 and d - 1 >= split) or at_import:
            l, c = lmarks[id(failing)]
            assert_pos = "lib.ms:%d:%d" % (l, c)
        else:
            l, c = mmarks[id(failing)]
            assert_pos = "main.ms:%d:%d" % (l, c)
    sc = {"files": files_out, "cwd": "p/q/r", "steps": [{"id": "run", "argv": ["mscript", "run", "main.ms", "-q"]}],
          "asserts": [{"kind": "c17_report", "step": "run", "lines": expect, "chain": exp_chain, "assert_pos": assert_pos, "innermost_repeats": kind == "unbounded-recursion", "native": NATIVE.get(kind)}]}
    return sc


# programs whose callbacks change the very collection a built-in is walking: whatever the outcome (completion or a reported
# run-time error), it must not be an internal panic / abort
NOPANIC = {
    "filter-callback-clears": "xs: [int...] = [1, 2, 3]\nys = xs.filter(fn(x: int) -> bool {\n\txs.clear()\n\treturn true\n})\nprint ys.len()\n",
    "filter-callback-removes": "xs: [int...] = [1, 2, 3, 4]\nys = xs.filter(fn(x: int) -> bool {\n\tif x == 2 {\n\t\txs.remove(0)\n\t}\n\treturn x %% 2 == 0\n})\nprint ys.len()\n".replace("%%", "%"),
    "filter-callback-removes-last": "xs: [int...] = [1, 2, 3]\nys = xs.filter(fn(x: int) -> bool {\n\tif xs.len() > 1 {\n\t\txs.remove(xs.len() - 1)\n\t}\n\treturn true\n})\nprint ys.len()\n",
    "filter-callback-pushes": "xs: [int...] = [1, 2]\nys = xs.filter(fn(x: int) -> bool {\n\tif xs.len() < 6 {\n\t\txs.push(x + 10)\n\t}\n\treturn true\n})\nprint ys.len()\n",
    "map-callback-clears": "xs: [int...] = [1, 2, 3]\nys = xs.map(fn(x: int) -> int {\n\txs.clear()\n\treturn x * 2\n})\nprint ys.len()\n",
    "map-callback-removes": "xs: [int...] = [1, 2, 3, 4]\nys = xs.map(fn(x: int) -> int {\n\tif xs.len() > 2 {\n\t\txs.remove(0)\n\t}\n\treturn x\n})\nprint ys.len()\n",
    "map-callback-pushes": "xs: [int...] = [1, 2]\nys = xs.map(fn(x: int) -> int {\n\tif xs.len() < 6 {\n\t\txs.push(x + 10)\n\t}\n\treturn x\n})\nprint ys.len()\n",
    "ensure-capacity-beyond-memory": "l: [int...] = [1]\nl.ensure_inner_capacity(2147483647)\nprint l.len()\n",
    "filter-in-filter-clears-outer": "xs: [int...] = [1, 2, 3]\nzs: [int...] = [5, 6]\nys = xs.filter(fn(x: int) -> bool {\n\tws = zs.filter(fn(z: int) -> bool {\n\t\txs.clear()\n\t\treturn true\n\t})\n\treturn ws.len() > 0\n})\nprint ys.len()\n",
}


def nopanic_scenario(name):
    src = "print \"@start\"\n" + NOPANIC[name] + "print \"@end\"\n"
    return {"files": {"p/q/r/main.ms": src}, "cwd": "p/q/r", "steps": [{"id": "run", "argv": ["mscript", "run", "main.ms", "-q"]}],
            "asserts": [{"kind": "exit", "step": "run", "in": ["ok", "error"]}, {"kind": "stderr_lacks", "step": "run", "value": "panicked at"}, {"kind": "stderr_lacks", "step": "run", "value": "memory allocation of"},
                        {"kind": "stdout_has", "step": "run", "value": "@start"},
                        {"kind": "any_of", "options": [[{"kind": "exit", "step": "run", "in": ["ok"]}, {"kind": "stdout_has", "step": "run", "value": "@end"}],
                                                       [{"kind": "exit", "step": "run", "in": ["error"]}, {"kind": "stderr_has", "step": "run", "value": "MSCRIPT INTERPRETER FATAL RUNTIME ERROR"}]]}]}


FNPTR = re.compile(r"^function ptr (\S+?)\(\)")
SPECIAL = ("<if>", "<else>", "<while>")


@scenario.assert_kind("c17_report")
def a_report(a, res, ctx):
    r = res[a["step"]]
    out = []
    lines = r.stdout.split("\n")
    if lines and lines[-1] == "":
        lines.pop()
    labels, rest = {}, []
    i = 0
    while i < len(lines):
        if lines[i].startswith("L:") and i + 1 < len(lines) and FNPTR.match(lines[i + 1]):
            labels[lines[i][2:]] = FNPTR.match(lines[i + 1]).group(1)
            i += 2
        else:
            rest.append(lines[i])
            i += 1
    if rest != a["lines"]:
        out.append("stdout: expected %r got %r" % (a["lines"][-4:], rest[-4:]))
    if r.klass != "error":
        out.append("exit: expected status 1 (MScript run-time error), got %s (code %s): %r" % (r.klass, r.code, r.stderr[-200:]))
    if "MSCRIPT INTERPRETER FATAL RUNTIME ERROR" not in r.stderr:
        out.append("banner: stderr lacks the fatal run-time error banner")
    else:
        m = re.search(r"Call stack trace:\n(.*?)\n\nCaused by", r.stderr, re.S)
        got, innermost = [], None
        if m:
            for ln in m.group(1).replace("\r", "").split("\n"):
                ln = ln.strip()
                if ln.startswith(">> ") or ln.startswith("^ "):
                    lab = ln.split(" ", 1)[1].strip()
                    if innermost is None:
                        innermost = lab
                    if not lab.startswith("<native code>"):
                        got.append(lab)
        want_native = a.get("native")
        if want_native and not (innermost or "").startswith("<native code>") or want_native and want_native not in (innermost or ""):
            out.append("trace-native: the failure happens inside the built-in %s, whose native frame must be the innermost entry; innermost is %r" % (want_native, innermost))
        if "native" in a and not want_native and (innermost or "").startswith("<native code>"):     # (older witnesses do not say)
            out.append("trace-native: the innermost entry is a native frame (%r) although the failing operation is not a built-in method" % innermost)
        exp = []
        for e in a["chain"]:
            exp.append(e["block"] if "block" in e else (e["label"] if "label" in e else labels.get(e["fn"], "<label of %s not printed>" % e["fn"])))
        if a.get("innermost_repeats"):
            # the innermost frames are an unknown number (>= 2) of activations of one recursive function
            k = 0
            while k < len(got) and got[k] == got[0]:
                k += 1
            if k < 2 or got[0] in exp:
                out.append("trace: expected at least two innermost activations of the recursive function, got %r" % got[:6])
            got = got[k:]
        fns = lambda l: [x for x in l if x not in SPECIAL]
        if fns(got) != fns(exp):
            out.append("trace: expected %r got %r" % (fns(exp), fns(got)))
        elif got != exp:
            # same functions, but the block frames shown between them are not the blocks that are open at the failure
            out.append("trace-blocks: expected %r got %r" % (exp, got))
        if a.get("assert_pos") and a["assert_pos"] not in r.stderr:
            out.append("assert-position: stderr does not name %s" % a["assert_pos"])
    return out or None


def describe(case):
    if "nopanic" in case:
        return "nopanic:" + case["nopanic"]
    return "%s @ %s%s wrap=%s/%s prefix=%s" % (case["kind"], "".join(case["chain"]) or "module", (" during-import" if case.get("import_time") else (" lib-from-%d" % case["split"]) if case["split"] < len(case["chain"]) else ""),
                                                case["wrap"], case["inner_wrap"], case.get("prefix", "none")) + ("" if operand_source(case) == "param" else " operand-from-" + operand_source(case))


def check(case):
    if "nopanic" in case:
        sc = nopanic_scenario(case["nopanic"])
        res, fails, _ = scenario.execute(sc)
        r = CaseResult(nt_keys=["nopanic:" + case["nopanic"]], labels=["kind=callback-mutates-its-collection", "outcome=" + res["run"].klass], sample={"case": case["nopanic"]})
        if fails:
            r.failure = fail("%s: %s" % (case["nopanic"], "; ".join(fails)), "C17:nopanic:%s:%s" % (case["nopanic"], res["run"].klass), sc, case=case)
        return r
    sc = build(case)
    d = len(case["chain"])
    nt = d >= 2 or any(e in ("M", "CB") for e in case["chain"]) or case["split"] < d
    labels = ["kind=" + case["kind"], "depth=%d" % d] + ["elem=" + e for e in set(case["chain"])]
    if case["split"] < d:
        labels.append("imported-module")
    if case.get("import_time"):
        labels.append("failure-during-import")
    labels.append("operand=" + operand_source(case))
    r = CaseResult(nt_keys=[describe(case)] if nt else [], labels=labels, sample={"case": describe(case), "main.ms": sc["files"]["p/q/r/main.ms"][-600:]})
    res, fails, _ = scenario.execute(sc)
    if fails:
        run = res["run"]
        if "Did not compile" in run.stderr:
            r.rejected = True
            if os.environ.get("MSV_DEBUG"):
                print("REJECTED:", describe(case), "\n" + sc["files"]["p/q/r/main.ms"] + "\n" + run.stdout[:800])
            return r
        syms = sorted(set(f.split(":")[0] for f in fails[0].split("; ")))
        r.failure = fail(describe(case) + ": " + "; ".join(fails), "C17:%s:%s:%s" % (case["kind"], run.klass, ",".join(syms)), sc, case=case)
    return r


def enumerated(tier, seed):
    cases = [{"nopanic": n} for n in NOPANIC]
    for kind in KINDS:
        cases.append({"kind": kind, "chain": [], "split": 0, "wrap": "none", "inner_wrap": "none"})
        for w in ("if", "while"):
            cases.append({"kind": kind, "chain": [], "split": 0, "wrap": "none", "inner_wrap": w})
        for e in ELEMS:
            cases.append({"kind": kind, "chain": [e], "split": 1, "wrap": "none", "inner_wrap": "none"})
            for e2 in ELEMS:
                cases.append({"kind": kind, "chain": [e, e2], "split": 2, "wrap": "if", "inner_wrap": "from"})
        cases.append({"kind": kind, "chain": ["F", "F"], "split": 1, "wrap": "none", "inner_wrap": "none"})
        cases.append({"kind": kind, "chain": ["F", "CB", "M"], "split": 1, "wrap": "while", "inner_wrap": "else"})
        # the failure happens WHILE main.ms imports lib.ms: at lib's top level, or in what that top-level code calls
        cases.append({"kind": kind, "chain": [], "split": 0, "wrap": "none", "inner_wrap": "none", "import_time": True})
        cases.append({"kind": kind, "chain": ["F"], "split": 0, "wrap": "none", "inner_wrap": "if", "import_time": True})
        cases.append({"kind": kind, "chain": ["M", "CB"], "split": 0, "wrap": "while", "inner_wrap": "none", "import_time": True})
        # the operand of the failing statement is a variable the innermost function captured from a frame that is gone / a private
        # top-level variable of its file, here and in an imported module
        for o in ("factory", "module"):
            cases.append({"kind": kind, "chain": ["F"], "split": 1, "wrap": "none", "inner_wrap": "none", "operand": o})
            cases.append({"kind": kind, "chain": ["F", "C"], "split": 2, "wrap": "if", "inner_wrap": "none", "operand": o})
            cases.append({"kind": kind, "chain": ["F", "CB"], "split": 1, "wrap": "none", "inner_wrap": "if", "operand": o})
            cases.append({"kind": kind, "chain": ["F"], "split": 0, "wrap": "none", "inner_wrap": "none", "operand": o})
        for pk in PREFIXES[1:]:
            cases.append({"kind": kind, "chain": ["F"], "split": 1, "wrap": "none", "inner_wrap": "if", "prefix": pk})
            cases.append({"kind": kind, "chain": [], "split": 0, "wrap": "none", "inner_wrap": "none", "prefix": pk})
    return cases


@st.composite
def cases_st(draw):
    g = G(draw)
    kind = g.choice(sorted(KINDS))
    d = g.int(0, 6)
    chain = [g.choice(ELEMS) for _ in range(d)]
    split = d
    if d > 0 and g.chance(35):
        split = g.int(0, d - 1)
        if chain[split] == "M":
            chain[split] = "F"
    case = {"kind": kind, "chain": chain, "split": split, "wrap": g.choice(WRAPS), "inner_wrap": g.choice(WRAPS), "prefix": g.choice(PREFIXES + ["none", "none"])}
    if g.chance(30):
        case["operand"] = g.choice(["factory", "module"])
    if g.chance(12):
        case["import_time"] = True
        case["split"] = 0
    return case


def strategy(tier):
    return cases_st()


def n_random(tier):
    return 2400 if tier == "quick" else 60000


def files(case):
    return {k[len("p/q/r/"):]: v for k, v in build(case)["files"].items()}
