"""C13 — lists and maps are shared by reference and their operations match their model."""
import os
from hypothesis import strategies as st
from ..engine import CaseResult, fail
from .. import scenario, ms, model
from ..gen import G, I

ID = "C13"
LEVEL = "exploration"
RULE = ("cases are histories of up to 12 operations over up to 3 lists ([int...], [str...], nested [[int...]...], [int?...]) "
        "and 2 maps (map[str,int]) and their aliases / clones: push, remove, index read / assignment / op=, reverse, join "
        "(incl. self- and alias-join), clear, clone, map / filter with logging and capturing callbacks and with callbacks that grow, shrink or empty the receiver while it is being walked (also closures made by a factory that outlived the frame they captured from, one of them counting its calls), index_of, len, ==, `is` (aliases, clones, fresh and empty lists), "
        "an optional-element list that also stores present optionals produced by built-ins next to a shadow list of the same plain values (the two must stay ==), "
        "a map[int?, int] addressed through plain keys, nil and present optionals produced by built-ins, a [str?...] receiving what map.remove hands back, a map[str, int?] with entries that hold nil (set, replaced, removed, cloned; seen by contains_key / len / keys), a map[int, int] written through keys read from itself; string concatenation of elements; map literal, index read/assignment, replace, remove, contains_key, len, keys, "
        "values, pairs, clear, clone; indices from {-1, 0, 1, len-1, len, len+1}; every live container is printed after each "
        "step (maps through len + lookups of the key universe, never by printing the map). Oracle = reference interpreter "
        "(Python lists / dicts with identity). Non-trivial = a mutation through one alias is observed through another, or an "
        "operation hits an empty container / boundary index; distinct by program text")
ASSUMPTIONS = ["order of keys()/values()/pairs() is unspecified: only length and membership are compared",
               "join appends the argument's elements to the receiver, returns the receiver and leaves the argument unchanged",
               "map / filter visit the receiver by a live index (as the interpreter's loop `index < len` does): an element the callback appends is visited, one it removes before its turn is not"]

S = lambda s: ("lit", "str", s)
V = lambda n: ("var", n)
LI, LS = ("list", "int"), ("list", "str")
FII, FIB = ("fn", ["int"], "int"), ("fn", ["int"], "bool")
KEYS = ["a", "b", "c"]

PRELUDE = [
    ("decl", "neg1", None, ("bin", "-", I(0), I(1)), ()),
    ("decl", "kcap", None, I(3), ()),
    ("decl", "dbl", None, ("fn", [("v", "int")], "int", [("print", ("bin", "+", S("dbl"), V("v"))), ("return", ("bin", "*", V("v"), I(2)))]), ()),
    ("decl", "addk", None, ("fn", [("v", "int")], "int", [("return", ("bin", "+", V("v"), V("kcap")))]), ()),
    ("decl", "even", None, ("fn", [("v", "int")], "bool", [("print", ("bin", "+", S("even"), V("v"))), ("return", ("bin", "==", ("bin", "%", V("v"), I(2)), I(0)))]), ()),
    ("decl", "big", None, ("fn", [("v", "int")], "bool", [("return", ("bin", ">", V("v"), V("kcap")))]), ()),
    ("decl", "tostr", None, ("fn", [("v", "int")], "str", [("return", ("bin", "+", S("#"), V("v")))]), ()),
    ("decl", "first", None, ("fn", [("x", LI)], "int", [("return", ("index", V("x"), I(0)))]), ()),
    # callbacks that OUTLIVED the frame they captured from (made by a factory): what they captured is reachable only
    # through the function value itself; `step` / `seen` also exist at module level with other values as decoys
    ("decl", "step", None, I(1000), ()),
    ("decl", "mkadd", None, ("fn", [("step", "int")], FII, [("return", ("fn", [("v", "int")], "int", [("return", ("bin", "+", V("v"), V("step")))]))]), ()),
    ("decl", "add5", None, ("call", V("mkadd"), [I(5)]), ()),
    ("decl", "mkcount", None, ("fn", [], FII, [("decl", "hits", None, I(0), ()),
        ("return", ("fn", [("v", "int")], "int", [("decl", "hits", None, ("bin", "+", V("hits"), I(1)), ("modify",)),
                                                   ("return", ("bin", "+", ("bin", "*", V("v"), I(10)), V("hits")))]))]), ()),
    ("decl", "cnt", None, ("call", V("mkcount"), []), ()),
    ("decl", "mkover", None, ("fn", [("step", "int")], FIB, [("return", ("fn", [("v", "int")], "bool", [("return", ("bin", ">", V("v"), V("step")))]))]), ()),
    ("decl", "over4", None, ("call", V("mkover"), [I(4)]), ()),
    ("decl", "shout", None, ("fn", [("v", "str")], "str", [("return", ("bin", "+", V("v"), S("!")))]), ()),
]


def idx_expr(g, l, any_kind=False):
    """an index expression around the boundaries of list variable l (any_kind: the index may be a bigint - only
    `l[i]` takes those, `remove` wants an int)"""
    w = 1 if any_kind else 0
    k = g.weighted([(8, "0"), (3, "1"), (8, "last"), (1, "len"), (1, "len+1"), (1, "-1"), (1, "2"), (w, "big0"), (w, "big-2^64")])
    ln = ("mcall", V(l), "len", [])
    if k == "big0":
        return ("lit", "bigint", 0), k             # an index of another integer kind
    if k == "big-2^64":
        return ("lit", "bigint", 2 ** 64), k       # congruent to 0 modulo 2^64: out of range, not element 0
    if k == "0":
        return I(0), k
    if k == "1":
        return I(1), k
    if k == "2":
        return I(2), k
    if k == "last":
        return ("bin", "-", ln, I(1)), k
    if k == "len":
        return ln, k
    if k == "len+1":
        return ("bin", "+", ln, I(1)), k
    return V("neg1"), k


@st.composite
def cases(draw):
    g = G(draw)
    stmts = []
    ints, strs, maps, scalars = [], [], [], []
    has_nested = has_opt = has_optkeys = False
    boundary = False
    alias_pairs = 0

    def new_int_list(name):
        n = g.weighted([(2, 0), (2, 1), (3, 2), (2, 3)])
        stmts.append(("decl", name, LI, ("list", [I(g.int(0, 9)) for _ in range(n)]), ()))
        ints.append(name)
        return n == 0

    boundary |= new_int_list("la")
    # callbacks that change the length of `la` - the receiver itself when map / filter is called on `la` or an alias of it - while
    # map / filter is running: they grow it (bounded), shrink it from the end, or empty it
    mutators = g.chance(45)
    if mutators:
        la_len = ("mcall", V("la"), "len", [])
        stmts.append(("decl", "grow", None, ("fn", [("v", "int")], "int", [
            ("if", ("bin", "<", la_len, I(g.int(3, 6))), [("expr", ("mcall", V("la"), "push", [("bin", "+", V("v"), I(10))]))], None),
            ("return", ("bin", "*", V("v"), I(2)))]), ()))
        stmts.append(("decl", "shrink", None, ("fn", [("v", "int")], "int", [
            ("if", ("bin", ">", la_len, I(g.int(0, 2))), [("expr", ("mcall", V("la"), "remove", [("bin", "-", la_len, I(1))]))], None),
            ("return", ("bin", "+", V("v"), I(100)))]), ()))
        stmts.append(("decl", "growf", None, ("fn", [("v", "int")], "bool", [
            ("if", ("bin", "<", la_len, I(g.int(3, 6))), [("expr", ("mcall", V("la"), "push", [("bin", "+", V("v"), I(1))]))], None),
            ("return", ("bin", "!=", ("bin", "%", V("v"), I(3)), I(0)))]), ()))
        stmts.append(("decl", "wipef", None, ("fn", [("v", "int")], "bool", [
            ("expr", ("mcall", V("la"), "clear", [])), ("return", ("lit", "bool", True))]), ()))
    if g.chance(60):
        stmts.append(("decl", "ls", LS, ("list", [S(g.choice(["x", "y", "zz"])) for _ in range(g.int(0, 3))]), ()))
        strs.append("ls")
    if g.chance(65):
        n = g.int(0, 2)
        pairs = [(S(KEYS[i]), I(g.int(0, 9))) for i in range(n)]
        stmts.append(("decl", "ma", None, ("map", "str", "int", pairs), ()))
        maps.append("ma")
    steps = g.int(3, 12)
    for step in range(steps):
        ops = [(5, "push"), (2, "remove"), (3, "read"), (3, "assign"), (2, "opassign"), (2, "reverse"), (2, "join"), (1, "clear"),
               (2, "clone"), (2, "alias"), (2, "map"), (2, "filter"), (2, "index_of"), (1, "len"), (2, "eq"), (2, "is"), (1, "newlist"), (1, "concat"),
               (2, "nested"), (1, "optlist"), (1, "optkeys"), (1, "newmap"), (2, "litfrom"), (2, "mapfrom"), (2, "storefrom")]
        if strs:
            ops += [(2, "strop")]
        if maps:
            ops += [(7, "mapop")]
        op = g.weighted(ops)
        l = g.choice(ints)
        if op == "push":
            arg = I(g.int(0, 9)) if g.chance(75) else ("mcall", V(l), "len", [])
            stmts.append(("expr", ("mcall", V(l), "push", [arg])))
        elif op == "remove":
            i, k = idx_expr(g, l)
            boundary |= k in ("last", "len", "len+1", "-1")
            stmts.append(("print", ("mcall", V(l), "remove", [i])))
        elif op == "read":
            i, k = idx_expr(g, l, True)
            boundary |= k in ("last", "len", "len+1", "-1")
            stmts.append(("print", ("index", V(l), i)))
        elif op == "assign":
            i, k = idx_expr(g, l, True)
            boundary |= k in ("last", "len", "len+1", "-1")
            stmts.append(("seti", V(l), i, I(g.int(10, 19))))
        elif op == "opassign":
            i, k = idx_expr(g, l)
            stmts.append(("opassign", ("index", V(l), i), g.choice(["+=", "-=", "*=", "/=", "%=", "%="]), I(g.int(2, 5))))
        elif op == "reverse":
            stmts.append(("expr", ("mcall", V(l), "reverse", [])))
        elif op == "join":
            other = g.choice(ints)
            if other == l:
                g.label("self-join")
            name = "j%d" % step
            stmts.append(("decl", name, None, ("mcall", V(l), "join", [V(other)]), ()))
            ints.append(name)
            alias_pairs += 1
        elif op == "clear":
            stmts.append(("expr", ("mcall", V(l), "clear", [])))
            boundary = True
        elif op == "clone":
            name = "c%d" % step
            stmts.append(("decl", name, None, ("mcall", V(l), "clone", []), ()))
            ints.append(name)
            g.label("clone")
        elif op == "alias":
            name = "al%d" % step
            stmts.append(("decl", name, None, V(l), ()))
            ints.append(name)
            alias_pairs += 1
            g.label("alias")
        elif op == "map":
            name = "m%d" % step
            cb = g.choice(["dbl", "addk", "add5", "cnt", "add5", "cnt"] + (["grow", "shrink", "grow", "shrink"] if mutators else []))
            stmts.append(("decl", name, None, ("mcall", V(l), "map", [V(cb)]), ()))
            ints.append(name)
            g.label("map")
            if cb in ("grow", "shrink"):
                g.label("map-callback-changes-length-of-la:" + cb)
            if stmts[-1][3][3][0][1] in ("add5", "cnt"):
                g.label("callback-outlived-its-frame")
        elif op == "filter":
            name = "f%d" % step
            cb = g.choice(["even", "big", "over4"] + (["growf", "wipef", "growf"] if mutators else []))
            stmts.append(("decl", name, None, ("mcall", V(l), "filter", [V(cb)]), ()))
            ints.append(name)
            g.label("filter")
            if cb in ("growf", "wipef"):
                g.label("filter-callback-changes-length-of-la:" + cb)
        elif op == "index_of":
            e = ("mcall", V(l), "index_of", [I(g.int(0, 9))])
            if g.chance(35):
                # the position found (or a default) is USED: as index, as argument of remove, as map value
                g.label("found-position-used")
                pos = "pos%d" % len(stmts)
                stmts.append(("decl", pos, None, ("or", e, I(0)), ()))
                use = g.choice(["index", "remove", "arith", "store"])
                if use == "index":
                    stmts.append(("print", ("index", V(l), V(pos))))
                elif use == "remove":
                    stmts.append(("print", ("mcall", V(l), "remove", [V(pos)])))
                elif use == "arith":
                    stmts.append(("print", ("bin", "+", ("bin", "*", V(pos), I(2)), I(1))))
                else:
                    stmts.append(("decl", pos + "l", LI, ("list", [V(pos)]), ()))
                    stmts.append(("print", ("index", V(l), ("index", V(pos + "l"), I(0)))))
            else:
                stmts.append(("print", ("or", e, V("neg1"))) if g.chance(50) else ("print", ("bin", "==", e, ("nil",))))
        elif op == "len":
            stmts.append(("print", ("mcall", V(l), "len", [])))
        elif op == "eq":
            stmts.append(("print", ("bin", "==", V(l), V(g.choice(ints)))))
        elif op == "is":
            # identity: true for aliases (and for what join returns), false for clones, fresh lists - also EMPTY ones - and filter results
            other = g.choice(ints)
            stmts.append(("print", ("bin", "is", V(l), V(other))))
            if g.chance(40):
                name = "em%d" % step
                stmts.append(("decl", name, LI, ("list", []), ()))
                stmts.append(("print", ("bin", "is", V(name), V(g.choice(ints)))))
                ints.append(name)
                boundary = True
            g.label("is")
        elif op == "newlist" and len(ints) < 8:
            boundary |= new_int_list("n%d" % step)
        elif op == "concat":
            stmts.append(("print", ("bin", "+", ("bin", "+", S("e="), ("index", V(l), I(0))), S(";"))))
        elif op == "litfrom" and len(ints) < 8:
            # a list literal built from elements of another list must copy the values
            name = "lf%d" % step
            other = g.choice(ints)
            stmts.append(("decl", name, LI, ("list", [("index", V(l), I(0)), I(g.int(0, 9)), ("index", V(other), ("bin", "-", ("mcall", V(other), "len", []), I(1)))]), ()))
            ints.append(name)
            alias_pairs += 1
            g.label("literal-from-elements")
        elif op == "mapfrom" and len(maps) < 4:
            # a map literal whose values are element reads must copy the values, not keep pointers into the source
            name = "mq%d" % step
            other = g.choice(ints)
            pairs = [(S("a"), ("index", V(l), I(0))), (S("b"), I(g.int(0, 9)))]
            if g.chance(60):
                pairs.append((S("c"), ("index", V(other), ("bin", "-", ("mcall", V(other), "len", []), I(1)))))
            stmts.append(("decl", name, None, ("map", "str", "int", pairs), ()))
            maps.append(name)
            alias_pairs += 1
            g.label("map-literal-from-elements")
        elif op == "storefrom":
            # an element read stored into another container / a variable is a copy of the value
            other = g.choice(ints)
            src = ("index", V(other), I(0))
            k = g.choice(["push", "seti", "mapset", "var"] if maps else ["push", "seti", "var"])
            g.label("element-stored:" + k)
            alias_pairs += 1
            if k == "push":
                stmts.append(("expr", ("mcall", V(l), "push", [src])))
            elif k == "seti":
                stmts.append(("seti", V(l), I(0), src))
            elif k == "mapset":
                stmts.append(("seti", V(g.choice(maps)), S(g.choice(KEYS)), src))
            else:
                name = "sv%d" % step
                stmts.append(("decl", name, None, src, ()))
                scalars.append(name)
        elif op == "nested":
            if not has_nested:
                stmts.append(("decl", "ln", ("list", LI), ("list", [("list", [I(1)]), ("list", [I(2), I(3)])]), ()))
                has_nested = True
            k = g.choice(["pushlist", "inner", "len", "mapfirst", "indexof-fresh", "indexof-clone", "indexof-alias", "indexof-grown"])
            g.label("nested-list")
            if k == "pushlist":
                stmts.append(("expr", ("mcall", V("ln"), "push", [V(l)])))
                alias_pairs += 1
            elif k == "inner":
                name = "in%d" % step
                stmts.append(("decl", name, None, ("index", V("ln"), ("bin", "-", ("mcall", V("ln"), "len", []), I(1))), ()))
                stmts.append(("expr", ("mcall", V(name), "push", [I(g.int(20, 29))])))
                ints.append(name)
                alias_pairs += 1
            elif k.startswith("indexof"):
                # lists are found by CONTENTS: an equal list that is not the stored one (a fresh literal, a clone, a list that
                # became equal by a push), the stored list itself, and - first match wins - an equal list in front of an alias
                g.label("nested-list:" + k)
                if k == "indexof-fresh":
                    needle = ("list", [I(2), I(3)])
                elif k == "indexof-clone":
                    needle = ("mcall", ("index", V("ln"), ("bin", "-", ("mcall", V("ln"), "len", []), I(1))), "clone", [])
                elif k == "indexof-alias":
                    stmts.append(("expr", ("mcall", V("ln"), "push", [V(l)])))
                    needle = V(l)
                else:
                    name = "gr%d" % step
                    stmts.append(("decl", name, LI, ("list", [I(2)]), ()))
                    stmts.append(("expr", ("mcall", V(name), "push", [I(3)])))
                    needle = V(name)
                stmts.append(("print", ("or", ("mcall", V("ln"), "index_of", [needle]), V("neg1"))))
            elif k == "mapfirst":
                name = "mf%d" % step
                stmts.append(("decl", name, None, ("mcall", V("ln"), "map", [V("first")]), ()))
                ints.append(name)
                alias_pairs += 1
                g.label("callback-returns-element")
            else:
                stmts.append(("print", ("mcall", V("ln"), "len", [])))
        elif op == "optlist":
            if not has_opt:
                stmts.append(("decl", "lo", ("list", ("opt", "int")), ("list", [I(1), ("nil",), I(3)]), ()))
                # the shadow list receives the same values as PLAIN ints / nil, so `lo == lo2` must stay true even when lo
                # holds present optionals produced by built-ins (index_of, map remove)
                stmts.append(("decl", "lo2", ("list", ("opt", "int")), ("list", [I(1), ("nil",), I(3)]), ()))
                has_opt = True
            k = g.choice(["push", "set", "read", "isnil", "pushfrom", "pushfrom", "eqshadow", "opassign-last", "opassign-last"])
            g.label("optional-elements")
            if k == "push":
                v = I(g.int(0, 9))
                stmts.append(("expr", ("mcall", V("lo"), "push", [v])))
                stmts.append(("expr", ("mcall", V("lo2"), "push", [v])))
            elif k == "set":
                ix, v = I(g.int(0, 2)), I(g.int(0, 9))
                stmts.append(("seti", V("lo"), ix, v))
                stmts.append(("seti", V("lo2"), ix, v))
            elif k == "pushfrom":
                g.label("optional-from-builtin-stored-in-list")
                src = ("mcall", V(g.choice(ints)), "index_of", [I(g.int(0, 9))])
                stmts.append(("decl", "tmpo", ("opt", "int"), src, ()))
                stmts.append(("expr", ("mcall", V("lo"), "push", [V("tmpo")])))
                stmts.append(("if", ("bin", "==", V("tmpo"), ("nil",)), [("expr", ("mcall", V("lo2"), "push", [("nil",)]))],
                              [("expr", ("mcall", V("lo2"), "push", [("bin", "+", ("or", V("tmpo"), I(0)), I(0))]))]))
                stmts.append(("print", ("bin", "==", V("lo"), V("lo2"))))
            elif k == "opassign-last":
                # an op-assignment on the LAST element (which may hold what a built-in handed back: a present optional with its
                # wrapper), guarded so that it is present; the shadow list gets the same update
                g.label("optional-element-op-assignment")
                if g.chance(70):
                    # the last element is what a built-in hands back, pushed DIRECTLY (no variable in between)
                    src = ("mcall", V(g.choice(ints)), "index_of", [I(g.int(0, 9))])
                    stmts.append(("decl", "tmpo", ("opt", "int"), src, ()))
                    stmts.append(("expr", ("mcall", V("lo"), "push", [src])))
                    stmts.append(("if", ("bin", "==", V("tmpo"), ("nil",)), [("expr", ("mcall", V("lo2"), "push", [("nil",)]))],
                                  [("expr", ("mcall", V("lo2"), "push", [("bin", "+", ("or", V("tmpo"), I(0)), I(0))]))]))
                last = lambda l: ("bin", "-", ("mcall", V(l), "len", []), I(1))
                opk = g.choice(["+=", "-=", "*="])
                stmts.append(("if", ("bin", "!=", ("index", V("lo"), last("lo")), ("nil",)),
                              [("opassign", ("index", V("lo"), last("lo")), opk, I(g.int(1, 3))), ("opassign", ("index", V("lo2"), last("lo2")), opk, I(0) if False else I(1))] if False else
                              [("opassign", ("index", V("lo"), last("lo")), opk, I(2)), ("opassign", ("index", V("lo2"), last("lo2")), opk, I(2))], None))
                stmts.append(("print", ("bin", "==", V("lo"), V("lo2"))))
                stmts.append(("print", V("lo")))
            elif k == "eqshadow":
                stmts.append(("print", ("bin", "==", V("lo"), V("lo2"))))
                stmts.append(("print", ("bin", "==", V("lo2"), V("lo"))))
            elif k == "read":
                stmts.append(("print", ("or", ("index", V("lo"), I(g.int(0, 2))), V("neg1"))))
            else:
                stmts.append(("print", ("bin", "==", ("index", V("lo"), I(g.int(0, 2))), ("nil",))))
        elif op == "optkeys":
            # a map whose KEYS are optional, addressed through plain values, nil and present optionals produced by built-ins;
            # a [str?...] that receives what map.remove hands back
            if not has_optkeys:
                stmts.append(("decl", "mo", None, ("map", "int?", "int", [(I(1), I(10)), (("nil",), I(0))]), ()))
                stmts.append(("decl", "mss", None, ("map", "str", "str", [(S("a"), S("b")), (S("c"), S("d"))]), ()))
                stmts.append(("decl", "mi", None, ("map", "int", "int", [(I(1), I(2)), (I(2), I(1))]), ()))
                stmts.append(("decl", "mv", None, ("map", "str", "int?", [(S("a"), ("nil",)), (S("b"), I(2))]), ()))
                stmts.append(("decl", "los", ("list", ("opt", "str")), ("list", [S("x"), ("nil",)]), ()))
                # the type checker wants an index of exactly the key type: the key universe lives in `int?` variables
                for i_, kv in enumerate((I(0), I(1), I(2), ("nil",))):
                    stmts.append(("decl", "kq%d" % i_, ("opt", "int"), kv, ()))
                has_optkeys = True
            g.label("optional-keys")
            stmts.append(("decl", "ko", ("opt", "int"), g.choice([I(1), I(2), ("nil",), ("mcall", V(l), "index_of", [I(g.int(0, 9))]), ("mcall", V(l), "index_of", [("index", V(l), I(0))])]), ()))
            k = g.choice(["set", "get", "contains", "remove", "replace", "strpush", "selfkey", "selfkey-op", "optval", "optval"])
            if k == "optval":
                # a map whose VALUES are optional: an entry that holds nil is an entry (contains_key, len, keys see it)
                kk = S(g.choice(KEYS))
                w = g.choice(["set-nil", "set-value", "replace-nil", "remove", "copy-nil-entry"])
                if w == "set-nil":
                    stmts.append(("seti", V("mv"), kk, ("nil",)))
                elif w == "set-value":
                    stmts.append(("seti", V("mv"), kk, I(g.int(1, 9))))
                elif w == "replace-nil":
                    stmts.append(("expr", ("mcall", V("mv"), "replace", [kk, ("nil",)])))
                elif w == "remove":
                    stmts.append(("expr", ("mcall", V("mv"), "remove", [kk])))
                else:
                    stmts.append(("decl", "mv2", None, ("mcall", V("mv"), "clone", []), ()))
                    stmts.append(("print", ("mcall", V("mv2"), "contains_key", [kk])))
                e2 = ("bin", "+", S("mv:"), ("mcall", V("mv"), "len", []))
                for k3 in KEYS:
                    e2 = ("bin", "+", e2, ("bin", "+", S(","), ("mcall", V("mv"), "contains_key", [S(k3)])))
                stmts.append(("print", ("bin", "+", e2, ("bin", "+", S(" keys="), ("mcall", ("mcall", V("mv"), "keys", []), "len", [])))))
            elif k == "selfkey":
                # the key is read from the map that is being written
                stmts.append(("seti", V("mi"), ("index", V("mi"), I(g.int(1, 2))), I(g.int(1, 2))))
                stmts.append(("print", ("bin", "+", ("bin", "+", ("bin", "*", ("index", V("mi"), I(1)), I(10)), ("index", V("mi"), I(2))), ("bin", "*", ("mcall", V("mi"), "len", []), I(100)))))
            elif k == "selfkey-op":
                stmts.append(("opassign", ("index", V("mi"), ("index", V("mi"), I(g.int(1, 2)))), "*=", I(1)))
                stmts.append(("print", ("mcall", V("mi"), "remove", [("index", V("mi"), I(1))])))
                stmts.append(("seti", V("mi"), I(1), I(2)))
                stmts.append(("seti", V("mi"), I(2), I(1)))
            elif k == "set":
                stmts.append(("seti", V("mo"), V("ko"), I(g.int(20, 29))))
            elif k == "get":
                stmts.append(("print", ("or", ("index", V("mo"), V("ko")), V("neg1"))))
            elif k == "contains":
                stmts.append(("print", ("mcall", V("mo"), "contains_key", [V("ko")])))
            elif k == "remove":
                stmts.append(("print", ("or", ("mcall", V("mo"), "remove", [V("ko")]), V("neg1"))))
            elif k == "replace":
                stmts.append(("print", ("or", ("mcall", V("mo"), "replace", [V("ko"), I(g.int(30, 39))]), V("neg1"))))
            else:
                stmts.append(("expr", ("mcall", V("los"), "push", [("mcall", V("mss"), "remove", [S(g.choice(["a", "c", "zz"]))])])))
                stmts.append(("print", V("los")))
            e = ("bin", "+", S("mo:"), ("mcall", V("mo"), "len", []))
            for kk in (V("kq0"), V("kq1"), V("kq2"), V("kq3")):
                e = ("bin", "+", e, ("bin", "+", S(","), ("or", ("index", V("mo"), kk), V("neg1"))))
            stmts.append(("print", e))
        elif op == "strop":
            s = g.choice(strs)
            k = g.choice(["push", "map", "index_of", "read", "join", "reverse", "remove"])
            if k == "push":
                stmts.append(("expr", ("mcall", V(s), "push", [S(g.choice(["x", "y", "w"]))])))
            elif k == "map":
                name = "sm%d" % step
                stmts.append(("decl", name, None, ("mcall", V(s), "map", [V("shout")]), ()))
                strs.append(name)
            elif k == "index_of":
                stmts.append(("print", ("or", ("mcall", V(s), "index_of", [S(g.choice(["x", "y", "w"]))]), V("neg1"))))
            elif k == "read":
                i, kk = idx_expr(g, s)
                stmts.append(("print", ("bin", "+", S(">"), ("index", V(s), i))))
            elif k == "join":
                name = "sj%d" % step
                stmts.append(("decl", name, None, ("mcall", V(s), "join", [V(g.choice(strs))]), ()))
                strs.append(name)
            elif k == "reverse":
                stmts.append(("expr", ("mcall", V(s), "reverse", [])))
            else:
                i, kk = idx_expr(g, s)
                stmts.append(("print", ("mcall", V(s), "remove", [i])))
        elif op == "newmap" and len(maps) < 3:
            k = g.choice(["empty", "alias", "clone"]) if maps else "empty"
            name = "mp%d" % step
            if k == "empty":
                stmts.append(("decl", name, None, ("map", "str", "int", []), ()))
                boundary = True
            elif k == "alias":
                stmts.append(("decl", name, None, V(g.choice(maps)), ()))
                alias_pairs += 1
            else:
                stmts.append(("decl", name, None, ("mcall", V(g.choice(maps)), "clone", []), ()))
            maps.append(name)
        elif op == "mapop":
            m = g.choice(maps)
            key = S(g.choice(KEYS))
            k = g.choice(["set", "get", "replace", "remove", "contains", "len", "keys", "values", "pairs", "clear", "opset"])
            g.label("map:" + k)
            if k == "set":
                stmts.append(("seti", V(m), key, I(g.int(0, 9))))
            elif k == "opset":
                stmts.append(("if", ("mcall", V(m), "contains_key", [key]), [("opassign", ("index", V(m), key), "+=", I(g.int(1, 5)))], None))
            elif k == "get":
                stmts.append(("print", ("index", V(m), key)))
            elif k == "replace":
                stmts.append(("print", ("or", ("mcall", V(m), "replace", [key, I(g.int(0, 9))]), V("neg1"))))
            elif k == "remove":
                stmts.append(("print", ("or", ("mcall", V(m), "remove", [key]), V("neg1"))))
            elif k == "contains":
                stmts.append(("print", ("mcall", V(m), "contains_key", [key])))
            elif k == "len":
                stmts.append(("print", ("mcall", V(m), "len", [])))
            elif k == "keys":
                name = "ks%d" % step
                stmts.append(("decl", name, None, ("mcall", V(m), "keys", []), ()))
                stmts.append(("print", ("mcall", V(name), "len", [])))
                for kk in KEYS:
                    stmts.append(("print", ("bin", "!=", ("mcall", V(name), "index_of", [S(kk)]), ("nil",))))
            elif k == "values":
                name = "vs%d" % step
                stmts.append(("decl", name, None, ("mcall", V(m), "values", []), ()))
                stmts.append(("print", ("mcall", V(name), "len", [])))
                stmts.append(("print", ("bin", "!=", ("mcall", V(name), "index_of", [I(g.int(0, 9))]), ("nil",))))
            elif k == "pairs":
                stmts.append(("print", ("mcall", ("mcall", V(m), "pairs", []), "len", [])))
            else:
                stmts.append(("expr", ("mcall", V(m), "clear", [])))
        # observable state
        for x in ints[-6:] + strs[-2:] + scalars[-3:]:
            stmts.append(("print", V(x)))
        if has_nested:
            stmts.append(("print", V("ln")))
        if has_opt:
            stmts.append(("print", V("lo")))
        for m in maps:
            e = ("bin", "+", S(m + ":"), ("mcall", V(m), "len", []))
            for kk in KEYS:
                e = ("bin", "+", e, ("bin", "+", S(","), ("index", V(m), S(kk))))
            stmts.append(("print", e))
    return {"stmts": stmts, "labels": sorted(g.labels), "nt": alias_pairs > 0 or boundary}


def check(case):
    stmts = PRELUDE + [("print", S("@start"))] + case["stmts"] + [("print", S("@end"))]
    src, _ = ms.program(stmts)
    hist, _ = ms.program(case["stmts"])
    try:
        out, failure = model.Interp().run(stmts)
    except model.OutOfFuel:
        return CaseResult(evals=0, labels=["discard:model-fuel"])
    sc = scenario.simple(src, asserts=[{"kind": "stdout_eq", "step": "run", "value": out},
                                      {"kind": "exit", "step": "run", "in": ["ok"] if failure is None else ["error", "panic"]}])
    r = CaseResult(nt_keys=[hist] if case["nt"] else [], labels=case["labels"] + ["model:" + (failure.kind if failure else "ok")],
                   sample={"history": hist, "expected_stdout_tail": out[-300:], "expected_failure": failure.kind if failure else None})
    res, fails, _ = scenario.execute(sc)
    if fails:
        run = res["run"]
        if "Did not compile" in run.stderr:
            r.rejected = True
            if os.environ.get("MSV_DEBUG"):
                print("REJECTED:\n" + hist + "\n" + run.stdout[:800])
            if failure is None:
                # the reference interpreter runs this program to completion: a compile-time rejection of it is a violation
                # (when the model predicts a run-time failure, the compiler may legitimately report it earlier)
                diag = "\n".join(l for l in run.stdout.split("\n") if " = " in l or "-->" in l)[:600]
                r.failure = fail("the compiler rejected a program that the language accepts and the reference interpreter runs:\n" + diag + "\n" + hist,
                                 "C13:rejected-valid-program", sc, case={"diagnostics": diag})
            return r
        feats = [l for l in case["labels"] if l in ("self-join", "optional-from-builtin-stored-in-list")]
        if "join(" in hist:
            feats.append("join")
        r.failure = fail("; ".join(fails) + "\nhistory:\n" + hist, "C13:%s:%s:%s" % ("stdout" if run.stdout != out else "exit", run.klass, ",".join(sorted(set(feats)))), sc, case={"history": hist})
    return r


def strategy(tier):
    return cases()


def n_random(tier):
    return 4800 if tier == "quick" else 100000


def files(case):
    return {"main.ms": ms.program(PRELUDE + [("print", S("@start"))] + case["stmts"] + [("print", S("@end"))])[0]}
