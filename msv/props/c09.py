"""C09 — compiled code is structurally well-formed on every control-flow path."""
import os, glob, hashlib
from hypothesis import strategies as st
from ..engine import CaseResult, fail
from .. import scenario, ms

ID = "C09"
LEVEL = "exploration"
RULE = ("cases are programs (all enumerated control-flow skeletons to depth 2 (quick) / 3 (thorough) with and without a "
        "function wrapper; the example corpus; an operand-shape matrix - every pair of (literal, variable, element, field, method call, call with / without arguments, recursive self(..) with / without arguments, negation) around + * < == inside recursive functions with and without parameters; Hypothesis programs from the generators of C01/C07/C08/C12/C13/C15/C17); each is "
        "compiled to human-readable bytecode and EVERY emitted function is analysed over ALL branch outcomes (both successors of "
        "if / while / jmp_not_nil / store_skip): validity predicate = every jump target lies inside the function, execution never "
        "falls off the end, `done` and `jmp_pop n` never close more block frames than are open, two paths reaching one "
        "instruction carry the same number of open block frames, ret/ret_mod are the only exits; a second fixpoint tracks the "
        "operand-stack depth as an interval per instruction (calls leave 0 or 1 operand) and reports instructions whose exact "
        "or minimum operand requirement is DEFINITELY missed, `ret` with more than one operand and unbounded operand growth; "
        "additionally the program is run with the execution-trace hook: every EXECUTED instruction of a single-module program must find the operands it requires (exact depth) and be reached with the statically computed number of open block frames, and the run must not end in STACK MISMATCH. evaluations = functions analysed. Non-trivial = a function with a jmp_pop closing "
        ">= 2 frames or a return below >= 2 open block frames; distinct by instruction-stream hash")
ASSUMPTIONS = ["opcode effects on block frames as read from bytecode/src/instruction.rs and Function::run at the pinned commit; "
               "an unknown opcode is treated as frame-neutral fall-through",
               "operand-stack effects per opcode as in DESIGN.md Appendix C; intervals over-approximate, so only definite misses are reported"]


def tokenize(line):
    """instruction name + decoded arguments of one text-bytecode line"""
    line = line.strip()
    if " " not in line:
        return line, []
    name, rest = line.split(" ", 1)
    args, buf, inq, esc, have = [], [], False, False, False
    for ch in rest:
        if esc:
            buf.append({"n": "\n", "r": "\r", "t": "\t"}.get(ch, ch))
            esc = False
            continue
        if ch == "\\":
            esc = True
            continue
        if ch == "\"":
            if inq:
                args.append("".join(buf))
                buf, have = [], False
            inq = not inq
            continue
        if not inq and ch.isspace():
            if buf:
                args.append("".join(buf))
                buf = []
            continue
        buf.append(ch)
    if buf:
        args.append("".join(buf))
    return name, args


def parse_text_bytecode(text):
    """-> {function name: [(instr, args)]}"""
    funcs, cur, name = {}, None, None
    for line in text.split("\n"):
        if line.startswith("function "):
            name = line[len("function "):].strip()
            cur = []
        elif line.strip() == "end" and cur is not None:
            funcs[name] = cur
            cur = None
        elif cur is not None and line.strip():
            cur.append(tokenize(line))
    return funcs


PUSH1 = {"make_bool", "make_int", "make_float", "make_byte", "make_bigint", "make_str", "make_function", "make_object", "make_map", "load", "load_fast",
         "load_callback", "arg", "stack_size", "delete_name_reference_scoped", "ld_self", "load_self_export", "reserve_primitive"}
NEUTRAL = {"jmp", "jmp_pop", "done", "else_stmt", "printn", "export_name", "delete_name_scoped", "breakpoint", "stack_dump", "nop"}
EQ1_TO0 = {"store", "store_fast", "store_object", "export_special", "assert"}
EQ2_TO1 = {"equ", "neq", "mutate"}
GE1_SAME = {"neg", "not", "unwrap", "unwrap_into", "split_lookup_store", "map_op", "lookup"}
CALLS = {"call", "call_self", "call_object", "call_lib"}


def operand_effect(name, args, lo, hi):
    """-> (violation or None, [(successor kind, lo, hi)]) where kind is 'next' | 'jump' ; None successors = terminal.
    Only DEFINITE violations (the whole interval misses the requirement) are reported."""
    def need(minimum=None, exact=None):
        if exact is not None and (hi < exact or lo > exact):
            return "requires exactly %d operand(s), has %s" % (exact, "%d" % lo if lo == hi else "%d..%d" % (lo, hi))
        if minimum is not None and hi < minimum:
            return "requires at least %d operand(s), has at most %d" % (minimum, hi)
        return None
    if name in PUSH1:
        return None, [("next", lo + 1, hi + 1)]
    if name in NEUTRAL:
        return None, [("both", lo, hi)]
    if name == "make_vector":
        return None, [("next", 1, 1)] if not args else [("next", lo + 1, hi + 1)]
    if name == "pop":
        return need(minimum=1), [("next", max(0, lo - 1), max(0, hi - 1))]
    if name == "void":
        return None, [("next", 0, 0)]
    if name in EQ1_TO0:
        return need(exact=1), [("next", 0, 0)]
    if name == "store_skip":
        return need(exact=1), [("next", 0, 0), ("jump", 1, 1)]
    if name == "bin_op":
        return need(minimum=2), [("next", 1, 1)]
    if name in EQ2_TO1:
        return need(exact=2), [("next", 1, 1)]
    if name == "fast_rev2":
        return need(exact=2), [("next", 2, 2)]
    if name in GE1_SAME:
        return need(minimum=1), [("next", max(1, lo), max(1, hi))]
    if name == "vec_op":
        a0 = args[0] if args else ""
        if a0.startswith("+"):
            return need(exact=1), [("next", 0, 0)]
        if a0 == "mut":
            return need(exact=2), [("next", 1, 1)]
        return need(minimum=1), [("next", max(1, lo), max(1, hi))]
    if name == "bin_op_assign":
        if len(args) >= 2:
            return need(minimum=1), [("next", max(1, lo), max(1, hi))]
        return need(minimum=2), [("next", max(1, lo - 1), max(1, hi - 1))]
    if name == "fast_map_insert":       # map and key come from registers; the value is popped
        return need(minimum=1), [("next", max(0, lo - 1), max(0, hi - 1))]
    if name == "ptr_mut":
        return need(minimum=2), [("next", max(0, lo - 2), max(0, hi - 2))]
    if name == "jmp_not_nil":
        return need(minimum=1), [("next", max(0, lo - 1), max(0, hi - 1)), ("jump", max(1, lo), max(1, hi))]
    if name in ("if_stmt", "while_loop"):
        return need(minimum=1), [("both", 0, 0)]
    if name in CALLS:
        return None, [("next", 0, 1)]
    if name == "module_entry":
        return None, [("next", 1, 1)]
    if name == "ret":
        return ("ret with more than one operand (%d..%d)" % (lo, hi) if lo > 1 else None), None
    if name == "ret_mod":
        return None, None
    return "UNKNOWN", [("both", lo, hi)]


def analyse_operands(instrs):
    """fixpoint over (ip -> operand-depth interval); returns the list of definite violations (empty when an opcode is unknown)"""
    n = len(instrs)
    state = {0: (0, 0)}
    work = [0]
    viol = []
    seen_viol = set()
    steps = 0
    while work and steps < 20000:
        steps += 1
        ip = work.pop()
        lo, hi = state[ip]
        name, args = instrs[ip]
        v, succs = operand_effect(name, args, lo, hi)
        if v == "UNKNOWN":
            return []
        if v and ip not in seen_viol:
            seen_viol.add(ip)
            viol.append("instruction #%d (%s) %s" % (ip, name, v))
        if succs is None:
            continue
        targets = []
        try:
            for kind, l2, h2 in succs:
                if name in ("if_stmt", "while_loop"):
                    targets += [(ip + 1, l2, h2), (ip + int(args[0]), l2, h2)]
                elif name in ("jmp", "jmp_pop"):
                    targets.append((ip + int(args[0]), l2, h2))
                elif name == "jmp_not_nil":
                    targets.append((ip + 1, l2, h2) if kind == "next" else (ip + int(args[0]), l2, h2))
                elif name == "store_skip":
                    targets.append((ip + 1, l2, h2) if kind == "next" else (ip + int(args[2]), l2, h2))
                else:
                    targets.append((ip + 1, l2, h2))
        except (ValueError, IndexError):
            continue
        for t, l2, h2 in targets:
            if t < 0 or t >= n:
                continue
            h2 = min(h2, 64)
            l2 = min(l2, 64)
            if t in state:
                ol, oh = state[t]
                nl, nh = min(ol, l2), max(oh, h2)
                if (nl, nh) != (ol, oh):
                    state[t] = (nl, nh)
                    work.append(t)
            else:
                state[t] = (l2, h2)
                work.append(t)
    if any(h >= 64 for _, h in state.values()):
        viol.append("the operand stack can grow without bound on some path")
    return viol


def analyse(instrs):
    """all-paths exploration of (ip, open block frames). -> (violations, states, max jmp_pop n, max depth at a return)"""
    n = len(instrs)
    depth_at = {}
    work = [(0, 0)]
    viol = []
    max_pop, max_ret_depth = 0, 0

    def go(ip, d, src):
        if ip < 0 or ip >= n:
            viol.append("instruction #%d (%s): target %d outside the function (length %d)" % (src, instrs[src][0], ip, n) if ip != n or instrs[src][0] in ("jmp", "jmp_pop", "if_stmt", "while_loop", "jmp_not_nil", "store_skip")
                        else "execution falls off the end after instruction #%d (%s)" % (src, instrs[src][0]))
            return
        if d < 0:
            viol.append("instruction #%d (%s) closes more block frames than are open" % (src, instrs[src][0]))
            return
        if ip in depth_at:
            if depth_at[ip] != d:
                viol.append("instruction #%d is reached with %d and with %d open block frames (via #%d %s)" % (ip, depth_at[ip], d, src, instrs[src][0]))
            return
        depth_at[ip] = d
        work.append((ip, d))

    depth_at[0] = 0 if n else 0
    if n == 0:
        return ["empty function"], 0, 0, 0
    while work:
        ip, d = work.pop()
        name, args = instrs[ip]
        try:
            if name in ("if_stmt", "while_loop"):
                go(ip + 1, d + 1, ip)
                go(ip + int(args[0]), d, ip)
            elif name == "else_stmt":
                go(ip + 1, d + 1, ip)
            elif name == "done":
                go(ip + 1, d - 1, ip)
            elif name == "jmp":
                go(ip + int(args[0]), d, ip)
            elif name == "jmp_pop":
                k = int(args[1]) if len(args) > 1 else 1
                max_pop = max(max_pop, k)
                go(ip + int(args[0]), d - k, ip)
            elif name == "jmp_not_nil":
                go(ip + 1, d, ip)
                go(ip + int(args[0]), d, ip)
            elif name == "store_skip":
                go(ip + 1, d, ip)
                go(ip + int(args[2]), d, ip)
            elif name in ("ret", "ret_mod"):
                max_ret_depth = max(max_ret_depth, d)
            else:
                go(ip + 1, d, ip)
        except (ValueError, IndexError):
            viol.append("instruction #%d (%s): malformed arguments %r" % (ip, name, args))
    analyse.last_depths = depth_at
    return viol, len(depth_at), max_pop, max_ret_depth


_ids = None


def opcode_names():
    """opcode number -> instruction name, read from the working tree"""
    global _ids
    if _ids is None:
        import re
        text = open(os.path.join(os.environ.get("VERIF_REPO", "/repo"), "bytecode", "src", "instruction_constants.rs")).read()
        block = text[text.index("generate_consts! {"):]
        _ids = {int(m.group(2)): m.group(1).lower() for m in re.finditer(r"^\s*([A-Z_0-9]+)\s+(\d+)\s*$", block, re.M)}
    return _ids


def check_trace(trace_text, funcs, depths):
    """dynamic cross-check (hook MSCRIPT_VERIF_TRACE): every EXECUTED instruction must find the operands it requires and must
    be reached with the number of open block frames the static analysis computed. -> (violations, instructions checked)"""
    names = opcode_names()
    out, n, seen = [], 0, set()
    for line in trace_text.split("\n"):
        parts = line.rsplit(" ", 4)
        if len(parts) != 5:
            continue
        try:
            fn, ip, op, operands, blocks = parts[0], int(parts[1]), int(parts[2]), int(parts[3]), int(parts[4])
        except ValueError:
            continue                           # a line cut short when the watchdog killed a long-running program
        instrs = funcs.get(fn)
        if instrs is None or ip >= len(instrs) or names.get(op) != instrs[ip][0]:
            return [], -1                      # the trace does not line up with the text bytecode: no verdict
        key = (fn, ip, operands, blocks)
        if key in seen:
            continue
        seen.add(key)
        n += 1
        name, args = instrs[ip]
        v, _ = operand_effect(name, args, operands, operands)
        if v and v != "UNKNOWN":
            out.append("%s instruction #%d (%s) executed with %d operand(s): %s" % (fn, ip, name, operands, v))
        d = depths.get(fn, {}).get(ip)
        if d is not None and d != blocks:
            out.append("%s instruction #%d (%s) executed with %d open block frame(s), every static path has %d" % (fn, ip, name, blocks, d))
        if len(out) >= 4:
            break
    return out, n


@scenario.assert_kind("c09_wellformed")
def a_wf(a, res, ctx):
    comp = res["compile"]
    if comp.klass != "ok":
        return None            # rejected programs have no bytecode; not this property's concern
    out = []
    stats = {"functions": 0, "states": 0, "nt": [], "traced": 0}
    modules = sorted(glob.glob(os.path.join(ctx["cwd"], "**", "*.mmm"), recursive=True))
    all_funcs, all_depths = {}, {}
    for p in modules:
        try:
            text = open(p, encoding="utf-8").read()
        except UnicodeDecodeError:
            continue
        for fname, instrs in parse_text_bytecode(text).items():
            viol, states, max_pop, max_ret = analyse(instrs)
            all_funcs[fname] = instrs
            all_depths[fname] = dict(analyse.last_depths) if not viol else {}
            if not viol:
                viol = ["operands: " + v for v in analyse_operands(instrs)]
            stats["functions"] += 1
            stats["states"] += states
            if max_pop >= 2 or max_ret >= 2:
                stats["nt"].append(hashlib.blake2b(repr(instrs).encode(), digest_size=8).hexdigest())
            for v in viol[:3]:
                out.append("%s#%s: %s" % (os.path.basename(p), fname, v))
    trace_file = os.path.join(ctx["root"], "trace.txt")
    if len(modules) == 1 and not out and os.path.exists(trace_file):
        # function names are unique within one module only: the dynamic cross-check is applied to single-module programs
        tv, n = check_trace(open(trace_file, encoding="utf-8", errors="replace").read(), all_funcs, all_depths)
        stats["traced"] = n
        out += ["trace: " + v for v in tv]
    ctx["c09_stats"] = stats
    run = res.get("run")
    if run is not None and "STACK MISMATCH" in run.stderr:
        out.append("run: the program ended with a STACK MISMATCH report")
    return out or None


def make_scenario(files, entry="main.ms"):
    return {"files": {"p/q/r/" + k: v for k, v in files.items()}, "cwd": "p/q/r",
            "steps": [{"id": "run", "argv": ["mscript", "run", entry, "-q"], "env": {"MSCRIPT_VERIF_TRACE": "{ROOT}/trace.txt"}},
                      {"id": "compile", "argv": ["mscript", "compile", entry, "--output-format", "raw-text", "--quick"]}],
            "asserts": [{"kind": "c09_wellformed"}]}


def check(case):
    files, entry = case["files"], case.get("entry", "main.ms")
    sc = make_scenario(files, entry)
    # execute by hand to get at the analysis statistics
    from .. import execu
    import shutil
    root = execu.new_case_dir()
    try:
        execu.write_tree(root, sc["files"])
        cwd = os.path.join(root, sc["cwd"])
        results = {}
        for stp in sc["steps"]:
            env = {k: v.replace("{ROOT}", root) for k, v in stp["env"].items()} if stp.get("env") else None
            results[stp["id"]] = execu.run_cmd(stp["argv"], cwd, env, 10.0)
        ctx = {"root": root, "cwd": cwd, "sc": sc}
        f = a_wf(sc["asserts"][0], results, ctx)
        stats = ctx.get("c09_stats", {"functions": 0, "states": 0, "nt": [], "traced": 0})
    finally:
        shutil.rmtree(root, ignore_errors=True)
    labels = ["family=" + case["family"], "trace=" + ("checked" if stats.get("traced", 0) > 0 else "not-lined-up" if stats.get("traced", 0) < 0 else "none")]
    if results["compile"].klass != "ok":
        labels.append("rejected-at-compile-time")
    r = CaseResult(evals=max(1, stats["functions"]), nt_keys=stats["nt"], labels=labels,
                   sample={"family": case["family"], "origin": case.get("origin", ""), "functions": stats["functions"], "states": stats["states"]})
    if results["compile"].klass != "ok":
        r.rejected = case["family"] != "corpus"
    if f:
        kinds = sorted(set(("falls-off" if "falls off" in x else "outside" if "outside the function" in x else "closes-too-many" if "closes more" in x
                            else "trace" if x.split(": ", 1)[-1].startswith("trace: ") or "trace: " in x else "operands" if "operands: " in x else "depth-mismatch" if "open block frames" in x else "stack-mismatch" if "STACK MISMATCH" in x else "malformed") for x in f))
        r.failure = fail("%s: %s" % (case.get("origin", case["family"]), "; ".join(f[:4])) + "\n" + files.get(entry, "")[-1200:], "C09:" + ",".join(kinds), sc,
                         case={"origin": case.get("origin", case["family"])})
    return r


def enumerated(tier, seed):
    from .. import skeletons
    from . import c04
    cases = []
    for desc, stmts in skeletons.all_skeletons(2 if tier == "quick" else 3):
        cases.append({"family": "skeleton", "files": {"main.ms": ms.program(stmts)[0]},
                      "origin": "skeleton %s/%s/%s%s" % (desc["loop"], "+".join(desc["wraps"]) or "-", desc["exit"], "/fn" if desc["in_fn"] else "")})
    cases += [dict(c, family="corpus") for c in c04.corpus_cases()]
    cases += operand_shape_cases()
    # every looping / branching statement as the FIRST and as the LAST statement of a program and of function bodies of every kind
    cases += [dict(c, family="edge-statement") for c in c04.first_statement_cases() + c04.last_statement_cases()]
    cases += nested_exit_cases()
    return cases


def nested_exit_cases():
    """an `if` whose body ENDS in another `if` without else whose body ends in an exit (return / break / continue): the frames of
    both must be closed on every path - outer true / inner false included - in a plain function, in a while loop, in a from loop
    with a fresh and with a reused counter, with the outer `if` plain, with an else, as the else part and as an else-if link"""
    out = []
    ind = lambda lines, n: ["\t" * n + l for l in lines]
    for loop in ("none", "while", "from-fresh", "from-reused"):
        for ex in ("return 1", "break", "continue"):
            if loop == "none" and ex != "return 1":
                continue
            for outer in ("if", "if-else", "in-else", "else-if", "three-deep"):
                inner = ["if b > 0 {", "\t" + ex, "}"]
                if outer == "if":
                    blk = ["if a > 0 {", "\tprint \"outer\""] + ind(inner, 1) + ["}"]
                elif outer == "if-else":
                    blk = ["if a > 0 {", "\tprint \"outer\""] + ind(inner, 1) + ["} else {", "\tprint \"other\"", "}"]
                elif outer == "in-else":
                    blk = ["if a > 5 {", "\tprint \"other\"", "} else {", "\tprint \"outer\""] + ind(inner, 1) + ["}"]
                elif outer == "else-if":
                    blk = ["if a > 5 {", "\tprint \"other\"", "} else if a > 0 {", "\tprint \"outer\""] + ind(inner, 1) + ["}"]
                else:
                    blk = ["if a > 0 {", "\tif a > 0 {"] + ind(inner, 2) + ["\t}", "}"]
                if loop == "none":
                    body = blk
                elif loop == "while":
                    body = ["go = 0", "while go < 2 {", "\tgo = go + 1"] + ind(blk, 1) + ["\tprint \"tail\"", "}"]
                elif loop == "from-fresh":
                    body = ["from 0 to 2, i {"] + ind(blk, 1) + ["\tprint i", "}"]
                else:
                    body = ["i = 0", "from 0 to 2, i {"] + ind(blk, 1) + ["\tprint i", "}"]
                src = "f = fn(a: int, b: int) -> int {\n" + "\n".join(ind(body, 1)) + "\n\treturn 0\n}\n" + "".join("print f(%d, %d)\n" % ab for ab in ((1, 0), (1, 1), (0, 0), (0, 1))) + "print \"@end\"\n"
                out.append({"family": "nested-exit", "files": {"main.ms": src}, "origin": "nested-exit %s/%s/%s" % (loop, ex.split(" ")[0], outer)})
    return out


def operand_shape_cases():
    """every pair of OPERAND SHAPES around a binary operator, inside a recursive function with and without parameters: literal,
    variable, element, field, method call, call with / without arguments, recursive `self(..)` with / without arguments.  What an
    operand leaves on (or takes from) the operand stack depends on its shape; the instruction after it must find what it needs."""
    pre = ("class Ob {\n\tn: int\n\tconstructor(self) {\n\t\tself.n = 2\n\t}\n\tfn m(self) -> int {\n\t\treturn self.n\n\t}\n}\n"
           "ob = Ob()\nls: [int...] = [4, 5]\ncnt = 0\ng0 = fn() -> int {\n\treturn 3\n}\nh1 = fn(a: int) -> int {\n\treturn a + 1\n}\n")
    zero = ["1", "cnt", "ls[0]", "ob.n", "ob.m()", "g0()", "h1(2)", "self()", "(self())", "-cnt"]
    one = ["1", "k", "ls[0]", "ob.n", "ob.m()", "g0()", "h1(k)", "self(k - 1)", "(self(k - 1))", "-k"]
    out = []
    for op in ("+", "*", "<", "=="):
        for lshape in range(len(zero)):
            for rshape in range(len(zero)):
                tail = "print r0()\n" if op in ("+", "*") else "print r0()\n"
                ret = "int" if op in ("+", "*") else "bool"
                base = "0" if ret == "int" else "false"
                src0 = pre + "r0 = fn() -> %s {\n\tmodify cnt = cnt + 1\n\tif cnt > 2 {\n\t\treturn %s\n\t}\n\treturn %s %s %s\n}\n" % (ret, base, zero[lshape], op, zero[rshape]) + tail
                src1 = pre + "r1 = fn(k: int) -> %s {\n\tif k <= 0 {\n\t\treturn %s\n\t}\n\treturn %s %s %s\n}\nprint r1(2)\n" % (ret, base, one[lshape], op, one[rshape])
                if ret == "bool" and ("self" in zero[lshape] or "self" in zero[rshape]):
                    continue          # a bool-returning function cannot be an operand of < / ==
                out.append({"family": "operand-shapes", "files": {"main.ms": src0}, "origin": "shapes: %s %s %s in fn()" % (zero[lshape], op, zero[rshape])})
                out.append({"family": "operand-shapes", "files": {"main.ms": src1}, "origin": "shapes: %s %s %s in fn(k)" % (one[lshape], op, one[rshape])})
    return out


def strategy(tier):
    from . import c04
    return c04.strategy(tier)


def n_random(tier):
    return 3200 if tier == "quick" else 50000
