"""C08 — objects: per-instance state, reference identity, bound methods."""
import os
from hypothesis import strategies as st
from ..engine import CaseResult, fail
from .. import scenario, ms, model
from ..gen import G, I

ID = "C08"
LEVEL = "exploration"
RULE = ("cases are up to 3 classes (K0: int/str/list/optional fields, getters, setters, op-assign, a method calling other "
        "methods, methods returning self/Self, a method taking another instance; K1: a field of class type with methods "
        "reaching through it; K2: same member names as K0 with different behaviour) with randomised constants, plus a "
        "history of up to 15 steps (construct, alias, method call, chained calls, field read/write/op-assign, write through a "
        "nested field, pass to a function, store in / read from a list, `is`, replace a class-typed field, replace a list-typed field by a fresh / shared / outside list and push through one holder, calls whose argument list holds a call of the same / another method on another / the same object, SNAPSHOT a field / element / class-typed field into a module variable - through `modify` inside a function or by a plain declaration - and write the source afterwards); after every "
        "step the `n` of every live K0/K2 object is printed. Oracle = reference interpreter with an object heap. Non-trivial "
        "= >= 2 instances of one class and an update through an alias that is read through another reference; distinct by "
        "program text")
ASSUMPTIONS = ["objects are never printed (addresses)"]

S = lambda s: ("lit", "str", s)
V = lambda n: ("var", n)
SELF = V("self")
F = lambda o, f: ("field", o, f)


def classes(g):
    d = g.int(1, 3)       # bump delta
    k0 = ("class", "K0", [("n", "int"), ("s", "str"), ("l", ("list", "int")), ("o", ("opt", "int"))],
          [("n", "int"), ("s", "str")],
          [("setf", SELF, "n", V("n")), ("setf", SELF, "s", V("s")), ("setf", SELF, "l", ("list", [V("n")])), ("setf", SELF, "o", ("nil",))],
          [("get_n", [], "int", [("return", F(SELF, "n"))]),
           ("set_n", [("v", "int")], None, [("setf", SELF, "n", V("v"))]),
           ("add_n", [("v", "int")], None, [("opassign", F(SELF, "n"), "+=", V("v"))]),
           ("bump", [], "int", [("expr", ("mcall", SELF, "set_n", [("bin", "+", ("mcall", SELF, "get_n", []), I(d))])), ("return", F(SELF, "n"))]),
           ("me", [], ("cls", "Self"), [("return", SELF)]),
           ("with_n", [("v", "int")], ("cls", "Self"), [("setf", SELF, "n", V("v")), ("return", SELF)]),
           ("push", [("v", "int")], None, [("expr", ("mcall", F(SELF, "l"), "push", [V("v")]))]),
           ("sum", [], "int", [("decl", "t", None, I(0), ()),
                               ("from", I(0), ("mcall", F(SELF, "l"), "len", []), False, None, "i",
                                [("decl", "t", None, ("bin", "+", V("t"), ("index", F(SELF, "l"), V("i"))), ())]),
                               ("return", V("t"))]),
           ("absorb", [("other", ("cls", "Self"))], None,
            [("setf", SELF, "n", ("bin", "+", F(SELF, "n"), F(V("other"), "n"))), ("setf", V("other"), "n", I(0))]),
           ("set_o", [("v", ("opt", "int"))], None, [("setf", SELF, "o", V("v"))]),
           ("reset_l", [], None, [("setf", SELF, "l", ("list", []))]),
           ("share_l", [("other", ("cls", "Self"))], None, [("setf", SELF, "l", F(V("other"), "l"))]),
           ("take_l", [("v", ("list", "int"))], None, [("setf", SELF, "l", V("v"))]),
           ("twin", [], ("cls", "Self"), [("return", ("new", "Self", [("bin", "+", F(SELF, "n"), I(1)), F(SELF, "s")]))]),
           # a method whose RESULT can be an argument of the same method on another object
           ("sum_with", [("v", "int")], "int", [("setf", SELF, "n", ("bin", "+", F(SELF, "n"), V("v"))), ("return", F(SELF, "n"))]),
           ("linked", [("other", ("cls", "Self"))], ("cls", "Self"), [("setf", SELF, "n", ("bin", "+", F(SELF, "n"), F(V("other"), "n"))), ("return", SELF)]),
           # one method READS the module variable gk, another one has a PARAMETER called gk
           ("plus_gk", [], "int", [("return", ("bin", "+", F(SELF, "n"), V("gk")))]),
           ("times_gk", [("gk", "int")], "int", [("return", ("bin", "*", F(SELF, "n"), V("gk")))]),
           ])
    k1 = ("class", "K1", [("inner", ("cls", "K0")), ("tag", "str")], [("inner", ("cls", "K0")), ("tag", "str")],
          [("setf", SELF, "inner", V("inner")), ("setf", SELF, "tag", V("tag"))],
          [("inner_n", [], "int", [("return", F(F(SELF, "inner"), "n"))]),
           ("bump_inner", [], None, [("expr", ("mcall", F(SELF, "inner"), "add_n", [I(1)]))]),
           ("get_inner", [], ("cls", "K0"), [("return", F(SELF, "inner"))]),
           ("set_inner", [("k", ("cls", "K0"))], None, [("setf", SELF, "inner", V("k"))]),
           ])
    m = g.int(2, 4)
    k2 = ("class", "K2", [("n", "int")], [("n", "int")], [("setf", SELF, "n", ("bin", "*", V("n"), I(m)))],
          [("get_n", [], "int", [("return", ("bin", "-", I(0), F(SELF, "n")))]),
           ("set_n", [("v", "int")], None, [("setf", SELF, "n", ("bin", "+", V("v"), I(1000)))]),
           ("bump", [], "int", [("opassign", F(SELF, "n"), "-=", I(1)), ("return", F(SELF, "n"))]),
           ])
    helper = ("decl", "mutate", None, ("fn", [("k", ("cls", "K0")), ("d", "int")], "int",
              [("expr", ("mcall", V("k"), "add_n", [V("d")])), ("return", F(V("k"), "n"))]), ())
    # objects are also made inside a function whose parameter is called gk, too
    build = ("decl", "build0", None, ("fn", [("gk", "int")], ("cls", "K0"), [("return", ("new", "K0", [V("gk"), S("b")]))]), ())
    return [("decl", "gk", None, I(100), ()), k0, k1, k2, helper, build]


@st.composite
def cases(draw):
    g = G(draw)
    stmts = classes(g)
    k0s, k1s, k2s = [], [], []      # variable names referring to objects (aliases included)
    distinct0 = 0
    nobj = 0
    lists = []
    alias_write_then_read = False
    aliased = False
    stmts.append(("decl", "a0", None, ("new", "K0", [I(g.int(0, 9)), S("a")]), ()))
    k0s.append("a0")
    distinct0 += 1
    # SNAPSHOTS: a module variable receives what a field / element holds at one moment - through `modify` inside a function,
    # or by a plain declaration - and must keep that value (for an object: that object) when the field is written later
    K0T, K1T = ("cls", "K0"), ("cls", "K1")
    stmts.append(("decl", "snapn", None, I(0 - 1), ()))
    stmts.append(("decl", "snapk", None, V("a0"), ()))
    stmts.append(("decl", "take_n", None, ("fn", [("k", K0T)], None, [("decl", "snapn", None, F(V("k"), "n"), ("modify",))]), ()))
    stmts.append(("decl", "take_el", None, ("fn", [("k", K0T)], None, [("decl", "snapn", None, ("index", F(V("k"), "l"), I(0)), ("modify",))]), ()))
    stmts.append(("decl", "take_inner", None, ("fn", [("w", K1T)], None, [("decl", "snapk", None, F(V("w"), "inner"), ("modify",))]), ()))
    copies = []
    steps = g.int(3, 15)
    for step in range(steps):
        ops = [(3, "snapshot"), (2, "gk"), (3, "nested-call"), (3, "new0"), (2, "alias"), (4, "method"), (2, "chain"), (3, "fieldw"), (2, "fieldr"), (2, "is"), (2, "fn"),
               (3, "new1"), (1, "new2"), (1, "list"), (2, "absorb"), (1, "twin"), (1, "opt"), (3, "listfield")]
        if k1s:
            ops += [(3, "k1op")]
        if k2s:
            ops += [(2, "k2op")]
        if lists:
            ops += [(2, "listop")]
        op = g.weighted(ops)
        if op == "nested-call":
            # a call of a method whose ARGUMENT LIST holds a call of the same / another method on another (or the same) object
            a, b, c = g.choice(k0s), g.choice(k0s), g.choice(k0s)
            k = g.choice(["same-method", "same-method-object-result", "other-method", "three-deep", "same-receiver"])
            g.label("nested-call:" + k + (":distinct" if a != b else ":same-object"))
            if k == "same-method":
                stmts.append(("print", ("mcall", V(a), "sum_with", [("mcall", V(b), "sum_with", [I(g.int(1, 5))])])))
            elif k == "same-method-object-result":
                stmts.append(("print", F(("mcall", V(a), "linked", [("mcall", V(b), "linked", [V(c)])]), "n")))
            elif k == "other-method":
                stmts.append(("print", ("mcall", V(a), "sum_with", [("mcall", V(b), "get_n", [])])))
            elif k == "three-deep":
                stmts.append(("print", ("mcall", V(a), "sum_with", [("mcall", V(b), "sum_with", [("mcall", V(c), "sum_with", [I(1)])])])))
            else:
                stmts.append(("print", ("mcall", V(a), "sum_with", [("mcall", V(a), "sum_with", [I(g.int(1, 5))])])))
            alias_write_then_read = alias_write_then_read or aliased
        elif op == "gk":
            g.label("method-reads-module-variable-named-like-a-parameter")
            k = g.choice(["build", "plus", "times", "assign"])
            if k == "build" and len(k0s) < 6:
                name = "b%d" % step
                stmts.append(("decl", name, None, ("call", V("build0"), [I(g.int(0, 9))]), ()))
                k0s.append(name)
                distinct0 += 1
                stmts.append(("print", ("mcall", V(name), "plus_gk", [])))
            elif k == "times":
                stmts.append(("print", ("mcall", V(g.choice(k0s)), "times_gk", [I(g.int(2, 4))])))
            elif k == "assign":
                stmts.append(("decl", "gk", None, I(g.int(200, 209)), ()))
                stmts.append(("print", ("mcall", V(g.choice(k0s)), "plus_gk", [])))
            else:
                stmts.append(("print", ("mcall", V(g.choice(k0s)), "plus_gk", [])))
        elif op == "snapshot":
            o = g.choice(k0s)
            k = g.choice(["fn-field", "fn-element", "fn-object-field", "copy-field", "copy-element"])
            if k == "fn-object-field" and not k1s:
                k = "fn-field"
            g.label("snapshot:" + k)
            if k == "fn-field":
                stmts.append(("expr", ("call", V("take_n"), [V(o)])))
            elif k == "fn-element":
                stmts.append(("if", ("bin", ">", ("mcall", F(V(o), "l"), "len", []), I(0)), [("expr", ("call", V("take_el"), [V(o)]))], None))
            elif k == "fn-object-field":
                stmts.append(("expr", ("call", V("take_inner"), [V(g.choice(k1s))])))
            elif k == "copy-field" and len(copies) < 3:
                copies.append("cp%d" % step)
                stmts.append(("decl", copies[-1], None, F(V(o), "n"), ()))
            elif len(copies) < 3:
                copies.append("cp%d" % step)
                stmts.append(("decl", copies[-1], None, I(0 - 2), ()))
                stmts.append(("if", ("bin", ">", ("mcall", F(V(o), "l"), "len", []), I(0)), [("decl", copies[-1], None, ("index", F(V(o), "l"), I(0)), ())], None))
            # ... and the source is written right away, so that a snapshot that is really a view shows
            w = g.choice(["setn", "opn", "seti", "none"])
            if w == "setn":
                stmts.append(("setf", V(o), "n", I(g.int(40, 49))))
            elif w == "opn":
                stmts.append(("opassign", F(V(o), "n"), "+=", I(g.int(1, 3))))
            elif w == "seti":
                stmts.append(("if", ("bin", ">", ("mcall", F(V(o), "l"), "len", []), I(0)), [("decl", "tl%d" % step, None, F(V(o), "l"), ()), ("seti", V("tl%d" % step), I(0), I(g.int(50, 59)))], None))
            if k1s and g.chance(50):
                stmts.append(("expr", ("mcall", V(g.choice(k1s)), "set_inner", [V(g.choice(k0s))])))
            alias_write_then_read = alias_write_then_read or aliased
        elif op == "new0" and len(k0s) < 6:
            name = "a%d" % (len(k0s) + len(k1s) + len(k2s) + step)
            stmts.append(("decl", name, None, ("new", "K0", [I(g.int(0, 9)), S(g.choice(["p", "q"]))]), ()))
            k0s.append(name)
            distinct0 += 1
        elif op == "alias":
            src = g.choice(k0s)
            name = "al%d" % step
            stmts.append(("decl", name, None, V(src), ()))
            k0s.append(name)
            aliased = True
            g.label("alias")
        elif op == "method":
            o = g.choice(k0s)
            m = g.choice(["get_n", "set_n", "add_n", "bump", "push", "sum"])
            if m in ("get_n", "bump", "sum"):
                stmts.append(("print", ("mcall", V(o), m, [])))
            else:
                stmts.append(("expr", ("mcall", V(o), m, [I(g.int(0, 9))])))
            alias_write_then_read = alias_write_then_read or aliased
        elif op == "chain":
            o = g.choice(k0s)
            g.label("chain")
            ch = g.choice(["with", "me", "mixed"])
            if ch == "with":
                stmts.append(("print", ("mcall", ("mcall", ("mcall", V(o), "with_n", [I(g.int(0, 5))]), "with_n", [I(g.int(0, 5))]), "bump", [])))
            elif ch == "me":
                stmts.append(("print", F(("mcall", ("mcall", V(o), "me", []), "me", []), "n")))
            else:
                stmts.append(("print", ("mcall", ("mcall", ("mcall", V(o), "me", []), "with_n", [I(g.int(0, 5))]), "get_n", [])))
        elif op == "fieldw":
            o = g.choice(k0s)
            k = g.choice(["set", "op", "str"])
            if k == "set":
                stmts.append(("setf", V(o), "n", I(g.int(0, 9))))
            elif k == "op":
                stmts.append(("opassign", F(V(o), "n"), g.choice(["+=", "-=", "*="]), I(g.int(1, 3))))
            else:
                stmts.append(("setf", V(o), "s", S(g.choice(["u", "v"]))))
            alias_write_then_read = alias_write_then_read or aliased
        elif op == "fieldr":
            o = g.choice(k0s)
            f = g.choice(["n", "s", "l"])
            stmts.append(("print", F(V(o), f)))
        elif op == "is":
            a, b = g.choice(k0s), g.choice(k0s)
            g.label("is")
            stmts.append(("print", ("bin", "is", V(a), V(b))))
        elif op == "fn":
            o = g.choice(k0s)
            g.label("pass-to-function")
            stmts.append(("print", ("call", V("mutate"), [V(o), I(g.int(1, 4))])))
        elif op == "new1":
            name = "w%d" % step
            stmts.append(("decl", name, None, ("new", "K1", [V(g.choice(k0s)), S("t")]), ()))
            k1s.append(name)
            aliased = True
        elif op == "new2" and len(k2s) < 2:
            name = "z%d" % step
            stmts.append(("decl", name, None, ("new", "K2", [I(g.int(0, 5))]), ()))
            k2s.append(name)
        elif op == "k1op":
            w = g.choice(k1s)
            k = g.choice(["inner_n", "bump_inner", "nested_write", "get_inner_is", "set_inner", "via_get"])
            g.label("class-typed-field")
            if k == "inner_n":
                stmts.append(("print", ("mcall", V(w), "inner_n", [])))
            elif k == "bump_inner":
                stmts.append(("expr", ("mcall", V(w), "bump_inner", [])))
            elif k == "nested_write":
                stmts.append(("setf", F(V(w), "inner"), "n", I(g.int(0, 9))))
            elif k == "get_inner_is":
                stmts.append(("print", ("bin", "is", ("mcall", V(w), "get_inner", []), V(g.choice(k0s)))))
            elif k == "set_inner":
                stmts.append(("expr", ("mcall", V(w), "set_inner", [V(g.choice(k0s))])))
            else:
                stmts.append(("print", ("mcall", ("mcall", V(w), "get_inner", []), "bump", [])))
            alias_write_then_read = True
        elif op == "k2op":
            z = g.choice(k2s)
            m = g.choice(["get_n", "set_n", "bump"])
            if m == "set_n":
                stmts.append(("expr", ("mcall", V(z), m, [I(g.int(0, 9))])))
            else:
                stmts.append(("print", ("mcall", V(z), m, [])))
        elif op == "list" and not lists:
            stmts.append(("decl", "ks", ("list", ("cls", "K0")), ("list", [V(g.choice(k0s)) for _ in range(g.int(1, 3))]), ()))
            lists.append("ks")
            aliased = True
            g.label("list-of-objects")
        elif op == "listop":
            k = g.choice(["push", "get", "len"])
            if k == "push":
                stmts.append(("expr", ("mcall", V("ks"), "push", [V(g.choice(k0s))])))
            elif k == "get":
                name = "e%d" % step
                stmts.append(("decl", name, None, ("index", V("ks"), I(0)), ()))
                k0s.append(name)
                stmts.append(("expr", ("mcall", V(name), "add_n", [I(g.int(1, 5))])))
                alias_write_then_read = True
            else:
                stmts.append(("print", ("mcall", V("ks"), "len", [])))
        elif op == "absorb":
            a, b = g.choice(k0s), g.choice(k0s)
            g.label("method-taking-instance")
            stmts.append(("expr", ("mcall", V(a), "absorb", [V(b)])))
        elif op == "twin":
            o = g.choice(k0s)
            name = "tw%d" % step
            stmts.append(("decl", name, None, ("mcall", V(o), "twin", []), ()))
            k0s.append(name)
            distinct0 += 1
        elif op == "listfield":
            # a list-typed field replaced by another list (fresh, shared with another object, or a module-level list):
            # which list the field holds afterwards decides who sees later pushes
            o = g.choice(k0s)
            k = g.choice(["reset", "share", "take", "direct-fresh", "direct-share", "clear-then-reset"])
            g.label("list-field:" + k)
            if k == "reset":
                stmts.append(("expr", ("mcall", V(o), "reset_l", [])))
            elif k == "share":
                stmts.append(("expr", ("mcall", V(o), "share_l", [V(g.choice(k0s))])))
                aliased = True
            elif k == "take":
                name = "fl%d" % step
                stmts.append(("decl", name, ("list", "int"), ("list", [I(g.int(0, 9)) for _ in range(g.int(0, 2))]), ()))
                stmts.append(("expr", ("mcall", V(o), "take_l", [V(name)])))
                stmts.append(("expr", ("mcall", V(name), "push", [I(g.int(10, 19))])))
            elif k == "direct-fresh":
                stmts.append(("setf", V(o), "l", ("list", [I(g.int(0, 9)) for _ in range(g.int(0, 1))])))
            elif k == "direct-share":
                stmts.append(("setf", V(o), "l", F(V(g.choice(k0s)), "l")))
                aliased = True
            else:
                stmts.append(("expr", ("mcall", F(V(o), "l"), "clear", [])))
                stmts.append(("expr", ("mcall", V(o), "reset_l", [])))
            stmts.append(("expr", ("mcall", V(g.choice(k0s)), "push", [I(g.int(1, 9))])))
            alias_write_then_read = alias_write_then_read or aliased
        elif op == "opt":
            o = g.choice(k0s)
            if g.chance(50):
                stmts.append(("expr", ("mcall", V(o), "set_o", [I(g.int(0, 9)) if g.chance(60) else ("nil",)])))
            else:
                stmts.append(("print", ("or", F(V(o), "o"), I(-1))))
        # observable state after every step
        e = S("")
        for o in k0s + k2s:
            e = ("bin", "+", e, ("bin", "+", S(" "), F(V(o), "n")))
        for o in k0s:
            e = ("bin", "+", e, ("bin", "+", S(" l"), ("mcall", V(o), "sum", [])))
        e = ("bin", "+", e, ("bin", "+", ("bin", "+", S(" snap "), V("snapn")), ("bin", "+", S(" "), F(V("snapk"), "n"))))
        for c in copies:
            e = ("bin", "+", e, ("bin", "+", S(" "), V(c)))
        stmts.append(("print", e))
    return {"stmts": stmts, "labels": sorted(g.labels), "nt": distinct0 >= 2 and alias_write_then_read}


# ---- classes of the same NAME declared by different modules (one module cannot declare two: a diagnostic): each object runs the
# methods of ITS class. Every class is called Counter and has the methods step / twice / value and the fields n / log; what
# `step` adds differs per declaration. Expected output by a direct simulation.
TWIN_DELTAS = {"up": 1, "down": -10, "wide": 1000}


def twin_module(name, layout):
    d = TWIN_DELTAS[name]
    fields = "\tn: int\n\tlog: [int...]\n" if layout == 0 else "\tlog: [int...]\n\tn: int\n"
    helper = "" if layout < 2 else "base_%s = %d\n" % (name, d)
    add = str(d) if layout < 2 else "base_%s" % name        # layout 2: the method reads a module variable (it captures something)
    return (helper + "export class Counter {\n" + fields + "\tconstructor(self, start: int) {\n\t\tself.n = start\n\t\tself.log = [start]\n\t}\n"
            "\tfn step(self) -> Self {\n\t\tself.n = self.n + %s\n\t\tself.log.push(self.n)\n\t\treturn self\n\t}\n"
            "\tfn twice(self) -> int {\n\t\tself.step()\n\t\tself.step()\n\t\treturn self.n\n\t}\n\tfn value(self) -> int {\n\t\treturn self.n\n\t}\n}\n"
            "export make_%s: fn(int) -> Counter = fn(start: int) -> Counter {\n\treturn Counter(start)\n}\n" % (add, name))


def twin_program(case):
    """case["twin"] = {"objs": [module name per object, in construction order], "ops": [(object index, op)], "layouts": {module: 0|1|2}, "local": bool}"""
    tw = case["twin"]
    mods = sorted(set(tw["objs"]))
    files, lines, exp = {}, [], []
    if tw.get("local"):
        # the same classes declared inside functions of ONE module
        for m in mods:
            body = twin_module(m, tw["layouts"].get(m, 0)).replace("export class", "class").split("export make_")[0]
            lines.append("make_%s = fn(start: int) -> int {\n%s\tc = Counter(start)\n\tc.step()\n\treturn c.twice() * 1000 + c.log.len()\n}" % (m, "".join("\t" + l + "\n" for l in body.rstrip("\n").split("\n"))))
        lines.append("print \"@start\"")
        for i, m in enumerate(tw["objs"]):
            lines.append("print make_%s(%d)" % (m, 10 * (i + 1)))
            exp.append(str((10 * (i + 1) + 3 * TWIN_DELTAS[m]) * 1000 + 4))
        return {"main.ms": "\n".join(lines) + "\n"}, ["@start"] + exp
    for m in mods:
        files[m + ".ms"] = twin_module(m, tw["layouts"].get(m, 0))
        lines.append("import make_%s from %s" % (m, m))
    lines.append("print \"@start\"")
    state = []
    for i, m in enumerate(tw["objs"]):
        lines.append("o%d = make_%s(%d)" % (i, m, 10 * (i + 1)))
        state.append({"m": m, "n": 10 * (i + 1), "log": [10 * (i + 1)]})
    for i, op in tw["ops"]:
        o = state[i]
        d = TWIN_DELTAS[o["m"]]
        if op == "step":
            o["n"] += d; o["log"].append(o["n"])
            lines.append("print o%d.step().value()" % i); exp.append(str(o["n"]))
        elif op == "twice":
            for _ in range(2):
                o["n"] += d; o["log"].append(o["n"])
            lines.append("print o%d.twice()" % i); exp.append(str(o["n"]))
        elif op == "value":
            lines.append("print o%d.value()" % i); exp.append(str(o["n"]))
        elif op == "log":
            lines.append("print o%d.log" % i); exp.append("[" + ", ".join(str(x) for x in o["log"]) + "]")
        else:
            j = (i + 1) % len(state)
            lines.append("print o%d is o%d" % (i, j)); exp.append("true" if i == j else "false")
    files["main.ms"] = "\n".join(lines) + "\n"
    return files, ["@start"] + exp


def twin_cases():
    import itertools
    out = []
    script = ["step", "value", "twice", "log", "is", "step", "log"]
    for n in (2, 3):
        for objs in itertools.product(["up", "down", "wide"], repeat=n):
            if len(set(objs)) < 2:
                continue
            for layouts in ({}, {"down": 1}, {"down": 2, "up": 2, "wide": 2}, {"up": 2}):
                # every object gets the whole script; objects take turns op by op / one after the other
                ops_inter = [(i, op) for op in script for i in range(n)]
                ops_seq = [(i, op) for i in range(n) for op in script]
                for ops in (ops_inter, ops_seq):
                    out.append({"twin": {"objs": list(objs), "ops": ops, "layouts": layouts}, "labels": ["feat:same-named-classes-in-different-modules"], "nt": True})
    return out


def optional_field_cases():
    """an OPTIONAL scalar field that receives, in every order, what a built-in hands back (a wrapped present value, or nil), values
    computed by the program, and nil - through the object, through an alias, next to a second object"""
    import itertools
    G = lambda n, t, e: ("decl", n, t, e, ())
    last = F(SELF, "last")
    cls = ("class", "Rd", [("last", ("opt", "int")), ("fed", "int")], [], [("setf", SELF, "last", ("nil",)), ("setf", SELF, "fed", I(0))],
           [("feed", [("text", "str")], ("cls", "Self"), [("setf", SELF, "last", ("mcall", V("text"), "parse_int", [])), ("setf", SELF, "fed", ("bin", "+", F(SELF, "fed"), I(1))), ("return", SELF)]),
            ("bump", [], ("cls", "Self"), [("if", ("bin", "!=", last, ("nil",)), [("setf", SELF, "last", ("bin", "+", ("get", last), I(1)))], None), ("return", SELF)]),
            ("reset", [], ("cls", "Self"), [("setf", SELF, "last", I(0)), ("return", SELF)]),
            ("clear", [], ("cls", "Self"), [("setf", SELF, "last", ("nil",)), ("return", SELF)]),
            ("take", [("o", ("cls", "Self"))], ("cls", "Self"), [("setf", SELF, "last", F(V("o"), "last")), ("return", SELF)])])
    OPS = {"feed-number": lambda o: ("expr", ("mcall", V(o), "feed", [S("41")])), "feed-text": lambda o: ("expr", ("mcall", V(o), "feed", [S("x")])),
           "bump": lambda o: ("expr", ("mcall", V(o), "bump", [])), "reset": lambda o: ("expr", ("mcall", V(o), "reset", [])), "clear": lambda o: ("expr", ("mcall", V(o), "clear", [])),
           "take-from-q": lambda o: ("expr", ("mcall", V(o), "take", [V("q")])), "direct-plain": lambda o: ("setf", V(o), "last", I(5)),
           "direct-builtin": lambda o: ("setf", V(o), "last", ("mcall", S("8"), "parse_int", []))}
    out = []
    for seq in itertools.product(sorted(OPS), repeat=3):
        if len(set(seq)) == 1:
            continue
        stmts = [cls, G("p", None, ("new", "Rd", [])), G("q", None, ("new", "Rd", [])), G("r", None, V("p")), ("expr", ("mcall", V("q"), "feed", [S("9")]))]
        for i, op in enumerate(seq):
            stmts.append(OPS[op]("r" if i == 1 else "p"))
            stmts += [("print", ("or", F(V("p"), "last"), I(0 - 1))), ("print", ("or", F(V("r"), "last"), I(0 - 1))), ("print", ("bin", "==", F(V("p"), "last"), ("nil",)))]
        stmts += [("print", F(V("p"), "fed")), ("print", ("or", F(V("q"), "last"), I(0 - 1))), ("print", ("bin", "is", V("r"), V("p")))]
        out.append({"stmts": stmts, "labels": ["feat:optional-field-written-with-builtin-results-and-plain-values"], "nt": True, "raw": True})
    return out


def check_twin(case):
    files, exp = twin_program(case)
    out = "\n".join(exp) + "\n"
    sc = {"files": {"p/q/r/" + k: v for k, v in files.items()}, "cwd": "p/q/r",
          "steps": [{"id": "run", "argv": ["mscript", "run", "main.ms", "-q"]},
                    {"id": "compile", "argv": ["mscript", "compile", "main.ms", "--quick"]},
                    {"id": "execute", "argv": ["mscript", "execute", "main.mmm"], "only_if_ok": "compile"}],
          "asserts": [{"kind": "stdout_eq", "step": "run", "value": out}, {"kind": "exit", "step": "run", "in": ["ok"]},
                      {"kind": "stdout_eq", "step": "execute", "value": out}, {"kind": "exit", "step": "execute", "in": ["ok"]}]}
    r = CaseResult(nt_keys=[files["main.ms"] + str(sorted(case["twin"]["layouts"].items()))], labels=case["labels"] + ["model:ok"],
                   sample={"history": files["main.ms"], "expected_stdout_tail": out[-300:]})
    res, fails, _ = scenario.execute(sc)
    if fails:
        r.failure = fail("; ".join(fails) + "\n" + "\n".join("--- %s\n%s" % kv for kv in sorted(files.items())), "C08:stdout:%s:%s" % (res["run"].klass, case["labels"][0]), sc,
                         case={"twin": case["twin"]})
    return r


def check(case):
    if "twin" in case:
        return check_twin(case)
    if "fixed_expect" in case:
        src, _ = ms.program([("print", S("@start"))] + case["stmts"] + [("print", S("@end"))])
        out = "\n".join(["@start"] + case["fixed_expect"] + ["@end"]) + "\n"
        sc = scenario.simple(src, asserts=[{"kind": "stdout_eq", "step": "run", "value": out}, {"kind": "exit", "step": "run", "in": ["ok"]}])
        r = CaseResult(nt_keys=[src], labels=case["labels"] + ["model:ok"], sample={"history": src[-600:], "expected_stdout_tail": out[-300:]})
        res, fails, _ = scenario.execute(sc)
        if fails:
            r.failure = fail("; ".join(fails) + "\n" + src, "C08:stdout:%s:%s" % (res["run"].klass, case["labels"][0]), sc, case={"source": src})
        return r
    stmts = [("print", S("@start"))] + case["stmts"] + [("print", S("@end"))]
    src, _ = ms.program(stmts)
    hist, _ = ms.program(case["stmts"] if case.get("raw") else case["stmts"][6:])
    try:
        out, failure = model.Interp().run(stmts)
    except model.OutOfFuel:
        return CaseResult(evals=0, labels=["discard:model-fuel"])
    sc = scenario.simple(src, asserts=[{"kind": "stdout_eq", "step": "run", "value": out},
                                      {"kind": "exit", "step": "run", "in": ["ok"] if failure is None else ["error", "panic"]}])
    r = CaseResult(nt_keys=[src] if case["nt"] else [], labels=case["labels"] + ["model:" + (failure.kind if failure else "ok")],
                   sample={"history": hist, "expected_stdout_tail": out[-300:]})
    res, fails, _ = scenario.execute(sc)
    if fails:
        run = res["run"]
        if "Did not compile" in run.stderr:
            r.rejected = True
            if os.environ.get("MSV_DEBUG"):
                print("REJECTED:\n" + hist + "\n" + run.stdout[:800])
            if failure is None:
                # the reference interpreter runs this program to completion: a compile-time rejection of it is a violation
                # (when the model predicts a run-time failure, the compiler may legitimately report it earlier)
                diag = "\n".join(l for l in run.stdout.split("\n") if " = " in l or "-->" in l)[:600]
                r.failure = fail("the compiler rejected a program that the language accepts and the reference interpreter runs:\n" + diag + "\n" + hist,
                                 "C08:rejected-valid-program", sc, case={"diagnostics": diag})
            return r
        feats = ",".join(l for l in case["labels"] if l.startswith("feat:"))
        r.failure = fail("; ".join(fails) + "\nhistory:\n" + hist, "C08:%s:%s:%s" % ("stdout" if run.stdout != out else "exit", run.klass, feats), sc, case={"history": hist})
    return r


def enumerated(tier, seed):
    """fixed boundary programs of the statement (run through the same model oracle)"""
    G = lambda n, t, e: ("decl", n, t, e, ())
    coll = [G("total", None, I(100)),
            ("class", "C", [("total", "int")], [], [("setf", SELF, "total", I(1))],
             [("bump", [], None, [("decl", "total", None, ("bin", "+", V("total"), I(1)), ("modify",))]),
              ("read", [], "int", [("return", V("total"))]),
              ("own", [], "int", [("return", F(SELF, "total"))])]),
            G("c", None, ("new", "C", [])),
            ("expr", ("mcall", V("c"), "bump", [])),
            ("print", V("total")), ("print", F(V("c"), "total")), ("print", ("mcall", V("c"), "read", [])), ("print", ("mcall", V("c"), "own", []))]
    two = [("class", "P", [("v", "int")], [("v", "int")], [("setf", SELF, "v", V("v"))],
            [("val", [], "int", [("return", F(SELF, "v"))]), ("inc", [], ("cls", "Self"), [("opassign", F(SELF, "v"), "+=", I(1)), ("return", SELF)])]),
           G("p", None, ("new", "P", [I(1)])), G("q", None, ("new", "P", [I(1)])), G("r", None, V("p")),
           ("print", ("mcall", ("mcall", ("mcall", V("p"), "inc", []), "inc", []), "val", [])), ("print", ("mcall", V("q"), "val", [])), ("print", ("mcall", V("r"), "val", [])),
           ("print", ("bin", "is", V("p"), V("r"))), ("print", ("bin", "is", V("p"), V("q"))), ("print", ("bin", "is", ("mcall", V("p"), "inc", []), V("r")))]
    # a class declared inside a function body / a loop body: every execution of the declaration creates the class again and
    # its instances are distinct objects with their own fields
    local_cls = ("class", "L", [("v", "int")], [("v", "int")], [("setf", SELF, "v", V("v"))],
                 [("val", [], "int", [("return", F(SELF, "v"))]), ("add", [("d", "int")], None, [("opassign", F(SELF, "v"), "+=", V("d"))]),
                  ("twin", [], ("cls", "Self"), [("return", ("new", "Self", [("bin", "+", F(SELF, "v"), I(1000))]))])])
    use = [G("a", None, ("new", "L", [V("n")])), G("b", None, ("new", "L", [V("n")])), G("c", None, V("a")),
           ("expr", ("mcall", V("a"), "add", [I(10)])), ("print", ("bin", "is", V("a"), V("c"))), ("print", ("bin", "is", V("a"), V("b"))),
           G("t", None, ("mcall", V("a"), "twin", [])), ("print", ("mcall", V("t"), "val", [])), ("print", ("bin", "is", V("t"), V("a")))]
    infn = [G("mk", None, ("fn", [("n", "int")], "int", [local_cls] + use +
                           [("return", ("bin", "+", ("bin", "*", ("mcall", V("c"), "val", []), I(100)), ("mcall", V("b"), "val", [])))])),
            ("print", ("call", V("mk"), [I(1)])), ("print", ("call", V("mk"), [I(2)])), ("print", ("call", V("mk"), [I(3)]))]
    inloop = [G("n", None, I(0)),
              ("while", ("bin", "<", V("n"), I(3)), [G("n", None, ("bin", "+", V("n"), I(1))), local_cls] + use +
               [("print", ("mcall", V("c"), "val", [])), ("print", ("mcall", V("b"), "val", []))])]
    # `self` escapes from the constructor (stored in a field of the object itself, pushed into a list of a parent object that was
    # passed in): the escaped reference and the constructor's result are ONE object for `is`, for writes and for list ==
    esc = [("class", "Reg", [("items", ("list", "int"))], [], [("setf", SELF, "items", ("list", []))], [("count", [], "int", [("return", ("mcall", F(SELF, "items"), "len", []))])]),
           ("class", "N", [("me", ("opt", ("cls", "Self"))), ("v", "int")], [("v", "int")],
            [("setf", SELF, "v", V("v")), ("setf", SELF, "me", SELF)],
            [("same", [("other", ("cls", "Self"))], "bool", [("return", ("bin", "is", V("other"), SELF))]),
             ("bump", [], ("cls", "Self"), [("opassign", F(SELF, "v"), "+=", I(1)), ("return", SELF)])]),
           G("a", None, ("new", "N", [I(1)])), G("b", None, ("new", "N", [I(1)])),
           G("am", None, ("get", F(V("a"), "me"))),
           ("print", ("bin", "is", V("am"), V("a"))), ("print", ("bin", "is", V("am"), V("b"))), ("print", ("mcall", V("a"), "same", [V("am")])),
           ("expr", ("mcall", V("am"), "bump", [])), ("print", F(V("a"), "v")), ("print", F(V("b"), "v")),
           ("print", ("bin", "is", ("mcall", V("am"), "bump", []), V("a"))), ("print", F(V("a"), "v"))]
    # objects kept in a list: index_of finds an object by identity (objects have no ==), a structurally equal one is not found
    inlist = [("class", "E", [("v", "int")], [("v", "int")], [("setf", SELF, "v", V("v"))], []),
              G("ea", None, ("new", "E", [I(1)])), G("eb", None, ("new", "E", [I(1)])),
              G("es", ("list", ("cls", "E")), ("list", [V("eb"), V("ea")])),
              ("print", ("or", ("mcall", V("es"), "index_of", [V("ea")]), I(0 - 1))), ("print", ("or", ("mcall", V("es"), "index_of", [V("eb")]), I(0 - 1))),
              ("print", ("or", ("mcall", V("es"), "index_of", [("new", "E", [I(1)])]), I(0 - 1))),
              ("setf", V("ea"), "v", I(5)), ("print", ("or", ("mcall", V("es"), "index_of", [V("ea")]), I(0 - 1))), ("print", F(("index", V("es"), I(1)), "v"))]
    # a method call chained directly onto a call of a `-> Self` method that returns ANOTHER object (its argument, a fresh
    # twin): the chained method runs on the object that was returned, not on the first receiver
    chain = [("class", "Ch", [("v", "int")], [("v", "int")], [("setf", SELF, "v", V("v"))],
              [("val", [], "int", [("return", F(SELF, "v"))]),
               ("bump", [("d", "int")], ("cls", "Self"), [("opassign", F(SELF, "v"), "+=", V("d")), ("return", SELF)]),
               ("other", [("o", ("cls", "Self"))], ("cls", "Self"), [("return", V("o"))]),
               ("twin", [], ("cls", "Self"), [("return", ("new", "Self", [("bin", "+", F(SELF, "v"), I(100))]))])]),
             G("ca", None, ("new", "Ch", [I(4)])), G("cb", None, ("new", "Ch", [I(100)])),
             ("expr", ("mcall", ("mcall", V("ca"), "other", [V("cb")]), "bump", [I(10)])),
             ("print", F(V("ca"), "v")), ("print", F(V("cb"), "v")),
             ("print", ("mcall", ("mcall", ("mcall", V("ca"), "twin", []), "bump", [I(5)]), "val", [])), ("print", F(V("ca"), "v")),
             ("print", ("bin", "is", ("mcall", ("mcall", V("ca"), "other", [V("cb")]), "bump", [I(1)]), V("cb"))),
             ("print", ("bin", "is", ("mcall", ("mcall", V("ca"), "twin", []), "bump", [I(1)]), V("ca"))),
             ("print", ("mcall", ("mcall", ("mcall", V("ca"), "bump", [I(1)]), "other", [V("cb")]), "val", [])),
             ("print", F(V("ca"), "v")), ("print", F(V("cb"), "v"))]
    # a method that op-assigns a field by its BARE name while frames below it (a caller's parameter, a caller's loop counter, a
    # module variable is KF-C08-1 and left out) hold variables of that name
    bare = [("class", "Ty", [("count", "int")], [("start", "int")], [("setf", SELF, "count", V("start"))],
             [("hit", [], "int", [("opassign", V("count"), "+=", I(1)), ("return", V("count"))]),
              ("hit2", [], "int", [("expr", ("mcall", SELF, "hit", [])), ("return", ("mcall", SELF, "hit", []))]),
              ("peek", [], "int", [("return", F(SELF, "count"))])]),
            G("drive", None, ("fn", [("t", ("cls", "Ty")), ("count", "int")], "int", [("from", I(0), V("count"), False, None, None, [("expr", ("mcall", V("t"), "hit", []))]), ("return", V("count"))])),
            G("loopd", None, ("fn", [("t", ("cls", "Ty"))], "int", [G("acc", None, I(0)), ("from", I(0), I(2), False, None, "count", [G("acc", None, ("bin", "+", V("acc"), ("mcall", V("t"), "hit", [])))]), ("return", V("acc"))])),
            G("ta", None, ("new", "Ty", [I(0)])), G("tb", None, ("new", "Ty", [I(100)])), G("al", None, V("ta")),
            ("print", ("mcall", V("ta"), "hit", [])), ("print", ("mcall", V("tb"), "hit2", [])), ("print", ("mcall", V("ta"), "peek", [])),
            ("print", ("call", V("drive"), [V("ta"), I(3)])), ("print", ("mcall", V("al"), "peek", [])), ("print", ("mcall", V("tb"), "peek", [])),
            ("print", ("call", V("drive"), [V("tb"), I(2)])), ("print", ("call", V("loopd"), [V("al")])), ("print", ("mcall", V("ta"), "peek", [])), ("print", ("mcall", V("tb"), "peek", []))]
    # (the reference interpreter does not resolve bare field names in writes: the expected lines are written out by hand - a bare
    # name in a method that is a field of the class means the field of `self`)
    bare_expect = ["1", "102", "1", "3", "4", "102", "2", "11", "6", "104"]
    return twin_cases() + optional_field_cases() + [{"fixed_expect": bare_expect, "stmts": bare, "labels": ["feat:bare-field-op-assignment-under-same-named-caller-variables"], "nt": True, "raw": True}] + [{"stmts": chain, "labels": ["feat:method-chained-on-returned-object"], "nt": True, "raw": True},
            {"stmts": inlist, "labels": ["feat:index_of-object-in-list"], "nt": True, "raw": True},
            {"stmts": esc, "labels": ["feat:self-escapes-from-constructor"], "nt": True, "raw": True},
            {"stmts": coll, "labels": ["feat:field-named-like-a-global"], "nt": True, "raw": True},
            {"stmts": two, "labels": ["fixed:chain-identity"], "nt": True, "raw": True},
            {"stmts": infn, "labels": ["feat:class-declared-in-function-called-repeatedly"], "nt": True, "raw": True},
            {"stmts": inloop, "labels": ["feat:class-declared-in-loop-body"], "nt": True, "raw": True}]


def strategy(tier):
    return cases()


def n_random(tier):
    return 4000 if tier == "quick" else 60000


def files(case):
    if "twin" in case:
        return twin_program(case)[0]
    return {"main.ms": ms.program([("print", S("@start"))] + case["stmts"] + [("print", S("@end"))])[0]}
