"""C16 — the compiler is total: any input yields success or diagnostics, never a crash."""
import os, re, glob
from hypothesis import strategies as st
from ..engine import CaseResult, fail
from .. import scenario, pestgen
from ..gen import G

ID = "C16"
LEVEL = "exploration"
RULE = ("inputs (<= 4 kB of UTF-8) come from (a) a generator DERIVED AT RUN TIME from the working tree's grammar.pest (every "
        "production, types ignored, identifiers biased toward names already used so that many inputs pass name resolution), (b) "
        "token-level mutation (delete / insert / duplicate / swap / replace by a grammar terminal, 1-4 edits) of the example "
        "corpus and of well-typed generated programs, (c) near-miss TYPE PAIRS: a random type T (primitives, open and fixed-shape lists, maps, optionals, function types, classes, aliases; depth <= 3), a type one structural edit away from it, and a value of the second supplied where the first is wanted (declaration, argument, re-assignment, return, `or` fallback, field, element, map value, comparison, index), (d) an enumerated import matrix (form x target file x imported names x context, compiled next to helper modules), (e) the COMPLETE single-edit neighbourhood of three hand-written well-typed programs that between them use every construct (values and operators; classes, closures and recursion; imports, exports and built-in methods): each token replaced by each of 70 words, each of 23 snippets inserted at each token boundary, each token deleted; 90 000 inputs, all of them in both tiers, (f) a composition matrix: 31 outer expression forms (calls of the function being defined among them) x 38 inner forms (nine of them diagnostics in their own right, four typed through an alias) x 11 statement forms (three of them the bounds / step of a from loop) x 9 places (module, function, function with a callback parameter, closure, method, constructor, closure in a method, if block, loop body), (g) 16 control / declaration statements (break, continue, return, import, class, type, export, modify, const, ?=, uses of self ...) inside every stack of up to three enclosing constructs out of {from, while, if, else, function, closure, method, constructor}, (h) an enumerated family of boundary shapes (deep nesting of every "
        "bracketing construct, long operator chains, huge literals, unterminated tokens, import of odd paths). Oracle: `mscript "
        "compile f.ms --quick` exits 0, or exits 1 with diagnostics; exit 101 / a signal / a reproducible watchdog hit is a "
        "violation. Non-trivial = the input gets past the parser (no syntax diagnostic); distinct by input text")
ASSUMPTIONS = ["a watchdog hit (10 s for <= 4 kB) is re-run by the confirmation step before it is reported",
               "imports are limited to paths inside the case directory"]

GRAMMAR = os.path.join(os.environ.get("VERIF_REPO", "/repo"), "compiler", "src", "grammar.pest")
CORPUS = os.path.join(os.environ.get("VERIF_REPO", "/repo"), "examples")
_rules = None
_terms = None
_corpus = None


def rules():
    global _rules, _terms
    if _rules is None:
        _rules = pestgen.load(GRAMMAR)
        _terms = pestgen.terminals(_rules) + ["self", "Self", "nil", "true", "false", "0", "1", "x", "B5", "0b1", "1.5", "\"s\""]
    return _rules


def corpus():
    global _corpus
    if _corpus is None:
        _corpus = []
        for p in sorted(glob.glob(os.path.join(CORPUS, "**", "*.ms"), recursive=True)):
            try:
                t = open(p, encoding="utf-8").read()
            except UnicodeDecodeError:
                continue
            if len(t) <= 3500 and "import" not in t:
                _corpus.append(t)
    return _corpus


TOK = re.compile(r'\s+|[A-Za-z_][A-Za-z_0-9]*|\d+(?:\.\d+)?|"(?:\\.|[^"\\])*"|\S')


def screen(text):
    """containment: at most two `..`, at most 4 kB"""
    # the `...` that closes an open list type (`[int...]`) is not part of a path
    mark = "\ue000\ue001\ue002"
    if mark not in text:
        masked = re.sub(r"(?<!\.)\.\.\.(?=\s*\])", mark, text)
        if masked.count("..") > 2:
            masked = masked.replace("..", ".")
        text = masked.replace(mark, "...")
    elif text.count("..") > 2:
        text = text.replace("..", ".")
    b = text.encode("utf-8", "ignore")[:4096]
    return b.decode("utf-8", "ignore")


# every input is compiled next to two small modules, so that imports of existing files (with exported, private and missing
# names) are part of the input space
HELPER_LIB = "print \"lib\"\nhidden = 3\nexport shown: int = 1\nexport const fixed: int = 2\nexport mk: fn() -> int = fn() -> int {\n\treturn hidden\n}\nexport class Pt {\n\tx: int\n\tconstructor(self) {\n\t\tself.x = 1\n\t}\n}\nexport type Num int\n"
HELPER_BAD = "x = = 1\n"


def make_scenario(text):
    return {"files": {"p/q/r/f.ms": text, "p/q/r/lib.ms": HELPER_LIB, "p/q/r/sub/deep.ms": "export d: int = 4\n", "p/q/r/broken.ms": HELPER_BAD}, "cwd": "p/q/r",
            "steps": [{"id": "compile", "argv": ["mscript", "compile", "f.ms", "--quick"], "timeout": 10.0}],
            "asserts": [{"kind": "c16_total", "step": "compile"}]}


@scenario.assert_kind("c16_total")
def a_total(a, res, ctx):
    r = res[a["step"]]
    if "panicked at" in r.stderr or "has overflowed its stack" in r.stderr:
        # an internal panic is a violation whatever exit status the process ends with
        return "compiler died: internal panic (exit class %s, code %s): %r" % (r.klass, r.code, r.stderr[-400:])
    if r.klass == "ok":
        return None
    if r.klass == "error":
        if "-->" in r.stdout or "Error:" in r.stderr:
            return None
        return "exit status 1 without any diagnostic: stdout=%r stderr=%r" % (r.stdout[-200:], r.stderr[-200:])
    return "compiler died: exit class %s (code %s): %r" % (r.klass, r.code, r.stderr[-400:])


PANIC_AT = re.compile(r"panicked at ([^\n]+?):(\d+):\d+:\n([^\n]*)")


def max_nesting(text):
    d = m = 0
    for ch in text:
        if ch in "([{":
            d += 1
            m = max(m, d)
        elif ch in ")]}":
            d = max(0, d - 1)
    return m


def signature(res, text=""):
    r = res["compile"]
    if r.klass == "panic" or "panicked at" in r.stderr:
        m = PANIC_AT.search(r.stderr)
        if m:
            where = m.group(1).split("/src/")[-1]
            return "C16:panic:%s:%s:%s" % (where, m.group(2), re.sub(r"[0-9]+", "N", m.group(3))[:60])
        return "C16:panic:unknown"
    if r.klass == "signal":
        if "overflowed its stack" in r.stderr:
            return "C16:signal:stack-overflow:" + ("nesting>=300" if max_nesting(text) >= 300 else "shallow-input")
        return "C16:signal:%s" % r.code
    if r.klass == "timeout":
        return "C16:timeout:" + ("nested-list-type" if re.search(r"\[{12,}", text) else "other")
    return "C16:" + r.klass


def check(case):
    text = screen(case["text"])
    sc = make_scenario(text)
    res, fails, _ = scenario.execute(sc)
    r0 = res["compile"]
    past_parser = r0.klass == "ok" or (r0.klass == "error" and not re.search(r"^\s*= (expected|unexpected) ", r0.stdout, re.M)) or r0.klass in ("panic", "signal")
    stage = "accepted" if r0.klass == "ok" else ("semantic-diagnostic" if past_parser else "syntax-diagnostic")
    r = CaseResult(nt_keys=[text] if past_parser else [], labels=["family=" + case["family"], "stage=" + stage],
                   sample={"family": case["family"], "input": text[:300], "stage": stage})
    if fails:
        r.failure = fail("%s input (%d bytes): %s\n%s" % (case["family"], len(text), "; ".join(fails), text[:1500]), signature(res, text), sc,
                         case={"family": case["family"]})
    return r


def boundary_inputs():
    out = []
    for d in (50, 400):
        out.append(("paren-depth-%d" % d, "x = " + "(" * d + "1" + ")" * d + "\n"))
        out.append(("list-depth-%d" % d, "const x = " + "[" * d + "1" + "]" * d + "\n"))
        out.append(("neg-chain-%d" % d, "x = " + "-" * d + "1\n"))
        out.append(("not-chain-%d" % d, "x = " + "!" * d + "true\n"))
        out.append(("block-depth-%d" % d, "if true {" * d + "}" * d + "\n"))
        out.append(("fn-depth-%d" % d, "x = " + "fn() { return " * min(d, 60) + "1" + " }" * min(d, 60) + "\n"))
        out.append(("add-chain-%d" % d, "x = " + "1 + " * d + "1\n"))
        out.append(("call-chain-%d" % d, "f = fn() -> int { return 1 }\nx = f" + "()" * 1 + "\n" + "y = x" + " + f()" * d + "\n"))
        out.append(("type-depth-%d" % d, "x: " + "[" * d + "int..." + "]" * d + " = []\n"))
        out.append(("dot-chain-%d" % d, "class A { fn me(self) -> Self { return self } }\na = A()\nb = a" + ".me()" * d + "\n"))
        out.append(("index-chain-%d" % d, "const a = [1]\nb = a" + "[0]" * d + "\n"))
        out.append(("else-if-chain-%d" % d, "x = 1\nif x == 0 { }" + " else if x == 1 { }" * d + "\n"))
    # chains that nest without brackets (right-recursive parsing / AST building), at the 4 kB limit
    out += [("or-chain-4k", "o: int? = nil\nx = (o)" + " or (o)" * 570 + " or 1\n"), ("add-chain-4k", "x = " + "1 + " * 1010 + "1\n"),
            ("strcat-chain-4k", "x = \"a\"" + " + \"b\"" * 680 + "\n"), ("and-chain-4k", "x = true" + " && true" * 500 + "\n"),
            ("neg-chain-4k", "x = " + "-" * 3900 + "1\n"), ("get-chain-4k", "o: int? = 1\nx = " + "get " * 900 + "o\n"),
            ("dot-chain-4k", "class A { fn me(self) -> Self { return self } }\na = A()\nb = a" + ".me()" * 780 + "\n"),
            ("index-chain-4k", "const a = [1]\nb = a" + "[0]" * 1300 + "\n"), ("fn-nest-250", "x = " + "fn() { return " * 250 + "1" + " }" * 250 + "\n"),
            ("else-if-chain-4k", "x = 1\nif x == 0 { }" + " else if x == 1 { }" * 210 + "\n")]
    # unclosed runs of every opening token: a failed operand must not be parsed again at every level
    for d in (20, 40, 400):
        for name, tok, pre in (("list", "[", "x = "), ("paren", "(", "x = "), ("block", "if true {", ""), ("index", "[", "const a = [1]\nb = a"), ("call", "f(", "f = fn(a: int) -> int { return a }\ny = "),
                               ("type-list", "[", "x: "), ("fn-type", "fn(", "x: "), ("map-type", "map[str, ", "x: "), ("neg-list", "-[", "x = "), ("typeof-list", "typeof [", "x = "),
                               ("list-comma", "[1, ", "x = "), ("map-literal", "map[str, int] {\"k\": ", "x = ")):
            out.append(("unclosed-%s-%d" % (name, d), pre + tok * min(d, 4000 // len(tok)) + "\n"))
    for d in (257, 1200, 2000):
        out.append(("paren-depth-%d" % d, "x = " + "(" * d + "1" + ")" * d + "\n"))
        out.append(("list-depth-%d" % d, "const x = " + "[" * d + "1" + "]" * d + "\n"))
        out.append(("block-depth-%d" % d, "if true {" * min(d, 450) + "}" * min(d, 450) + "\n"))
    out += [("unclosed-block-comment-then-list-depth-1990", "### x\nconst x = " + "[" * 1990 + "1" + "]" * 1990 + "\n"),
            ("unclosed-block-comment-then-unclosed-lists", "### x\nconst x = " + "[" * 4000 + "\n")]
    # operators whose RESULT is as large as an operand says: whatever the compiler computes ahead of time must stay small and quick
    for cnt in ("2147483647", "2147483648", "300000000", "1000000000000", "9223372036854775807", "B9223372036854775807", "B170141183460469231731687303715884105727", "-1", "0"):
        for k, form in enumerate(("x = \"ab\" * %s\n", "x = %s * \"ab\"\n", "f = fn() -> str {\n\treturn \"ab\" * %s\n}\n", "x = (\"a\" + \"b\") * %s\n", "x = \"ab\" * %s * 2\n",
                                  "x = 2.pow(%s)\n", "x = B2.pow(%s)\n", "x = 1 << %s\n", "x = B1 << %s\n", "x = 2.5.powf(%s)\n", "const c = \"ab\" * %s\nprint c.len()\n",
                                  "x = [\"ab\" * %s]\n", "x = (\"ab\" * %s).len()\n")):
            out.append(("huge-result-%d-%s" % (k, cnt), form % cnt))
    for k, form in enumerate(("print %s[0]\n", "x = %s[0]\n", "[first] = %s\n", "[a, b] = %s\n", "const p = %s\nprint p[0]\n", "const p = %s\nq = p[0]\nprint q\n", "const p = %s\n[h] = p\n",
                              "const p = %s\nf = fn() -> int {\n\t[h, t] = p\n\treturn h\n}\n", "const p = %s\nf = fn() {\n\tprint p[0]\n}\n", "print %s[-1]\n", "print %s[0][0]\n",
                              "print %s.len()\n", "from 0 to %s[0] {\n}\n", "const p = %s\nprint p[1]\n", "const [u] = %s\n")):
        for ei, empty in enumerate(("[]", "[[]]", "\"\"", "map[str, int] {}", "[[], []]", "[1]", "[1, \"a\"]")):
            out.append(("empty-literal-%d-%d" % (k, ei), form % empty))
    out += [("huge-int", "x = " + "9" * 400 + "\n"), ("huge-float", "x = " + "9" * 400 + "." + "9" * 400 + "\n"), ("huge-byte", "x = 0b" + "1" * 300 + "\n"),
            ("huge-bigint", "x = B" + "9" * 300 + "\n"), ("hex-overflow", "x = 0x" + "F" * 64 + "\n"), ("unterminated-string", "x = \"abc\n"),
            ("unterminated-block-comment", "### never closed\nx = 1\n"), ("lonely-backslash", "x = \"a\\\"\n"), ("bad-escape", "x = \"a\\qb\"\n"),
            ("empty", ""), ("only-newlines", "\n\n\n"), ("nul-byte", "x = \"a\0b\"\n"), ("bom", "\ufeffx = 1\n"), ("crlf", "x = 1\r\ny = 2\r\n"),
            ("import-missing", "import nothere\n"), ("import-self", "import f\n"), ("import-dir", "import .\n"), ("import-names-missing", "import a from nothere\n"),
            ("self-outside", "x = self\n"), ("self-call-outside", "self(1)\n"), ("return-outside", "return 5\n"), ("break-outside", "break\n"), ("continue-outside", "continue\n"),
            ("class-dup", "class A { }\nclass A { }\n"), ("class-self-field", "class A { a: A }\n"), ("class-recursive-ctor", "class A { constructor(self) { x = A() } }\na = A()\n"),
            ("type-alias-cycle", "type A B\ntype B A\nx: A = 1\n"), ("type-alias-self", "type A A\n"), ("modify-undeclared", "modify q = 1\n"),
            ("const-modify-export", "const modify export x = 1\n"), ("export-in-fn", "f = fn() { export x: int = 1 }\n"), ("typeof-nil", "print typeof nil\n"),
            ("get-get-nil", "x = get get nil\n"), ("or-mismatch", "a: int? = nil\nb: str? = nil\nx = (a) or b\n"), ("or-chain", "a: int? = nil\nx = (a) or (a) or (a) or 1\n"),
            ("unwrap-of-literal", "5 ?= 6\n"), ("opassign-literal", "5 += 6\n"), ("index-negative", "const a = [1]\nx = a[-1]\n"), ("index-huge", "const a = [1]\nx = a[99999999999999999999]\n"),
            ("map-bad-key", "m = map[[int...], int] {}\n"), ("map-nested", "m = map[str, map[str, int]] {\"a\": map[str, int] {\"b\": 1}}\n"),
            ("from-float-nostep", "from 1.5 to 3 { }\n"), ("from-str", "from \"a\" to \"b\" { }\n"), ("from-step-zero", "from 0 to 3 step 0 { break }\n"),
            ("fn-dup-param", "f = fn(a: int, a: int) { }\n"), ("fn-no-type-param", "f = fn(a) { }\n"), ("fn-call-too-many", "f = fn() { }\nf(1, 2, 3)\n"),
            ("assert-nonbool", "assert 5\n"), ("print-void", "f = fn() { }\nprint f()\n"), ("unpack-mismatch", "[a, b] = [1]\n"), ("unpack-nonlist", "[a, b] = 5\n"),
            ("list-type-mixed-open", "x: [int, str...] = [1, \"a\", \"b\"]\n"), ("optional-fn-type", "x: (fn() -> int)? = nil\n"), ("deep-optional", "x: int???? = nil\n")]
    return out


# ---- alternating openers: a parser without memoization parses the text behind an opener once per alternative that can start
# with it; two DIFFERENT constructs that contain each other (a statement keyword in front of a list, a list that holds a function
# literal, a method call that takes one) multiply those repeats at every level - also in programs that are VALID
OPENERS = [("return [", "]"), ("print [", "]"), ("assert [", "]"), ("x = [", "]"), ("[", "]"), ("(", ")"), ("idf(", ")"), ("xs.map(", ")"), ("k.add(", ")"),
           ("fn() -> int {", "}"), ("fn(v: int) -> int {", "}"), ("if true {", "}"), ("while v < 0 {", "}"), ("from 0 to 2 {", "}"), ("map[str, int] {\"k\": ", "}"),
           ("xs[", "]"), ("k.n = [", "]"), ("typeof [", "]"), ("class A {", "}"), ("fn m(self) {", "}")]

def opener_pair_inputs():
    pre = ("class K {\n\tn: int\n\tconstructor(self) {\n\t\tself.n = 1\n\t}\n\tfn add(self, d: int) -> int {\n\t\treturn self.n + d\n\t}\n}\n"
           "v = 1\nk = K()\nxs: [int...] = [1, 2]\nidf = fn(a: int) -> int {\n\treturn a\n}\n")
    out = []
    for (a, ca) in OPENERS:
        for (b, cb) in OPENERS:
            if a == b:
                continue
            for n in (12, 40):
                unit = len(a) + len(b) + len(ca) + len(cb) + 4
                reps = min(n, (4000 - len(pre)) // unit)
                opened = "".join(a + "\n" + b + "\n" for _ in range(reps))
                out.append(("openers-unclosed:%s|%s:%d" % (a, b, n), pre + opened))
                out.append(("openers-closed:%s|%s:%d" % (a, b, n), pre + opened + "1\n" + "".join(cb + "\n" + ca + "\n" for _ in range(reps))))
    # the same for VALID programs: statements that are method calls taking a function literal, nested in each other
    for depth in (8, 14, 20, 30):
        body = "\t" * depth + "print v%d\n" % depth
        for i in range(depth, 0, -1):
            ind = "\t" * (i - 1)
            body = "%sxs.map(fn(v%d: int) -> int {\n%s%s\treturn v%d\n%s})\n" % (ind, i, body, ind, i, ind)
        out.append(("nested-callback-statements:%d" % depth, "xs: [int...] = [1]\n" + body))
    return out


ATOMS = ["true", "false", "nil", "self", "Self", "1", "1.5", "B1", "0b1", "\"s\"", "[]", "[[]]", "\"\"", "map[str, int] {}", "[1]", "[1, \"a\"]", "map[str, int] {\"k\": 1}", "fn() { }", "fn() -> int { return 1 }",
         "v", "o", "k", "K", "undeclared", "(v)", "v.x", "k.n", "typeof v"]
INFIX = ["+", "-", "*", "/", "%", "<", "<=", ">", ">=", "==", "!=", "&&", "||", "^", "&", "|", "xor", "<<", ">>", "is", "?=", "+=", "-=", "*=", "/=", "%=", "="]
MATRIX_PRE = "class K {\n\tn: int\n\tconstructor(self) {\n\t\tself.n = 1\n\t}\n}\nv = 1\no: int? = nil\nk = K()\n"


def matrix_inputs():
    """every infix operator x every ordered pair of atom shapes, every prefix / postfix operator x every atom shape. ONE
    expression per input: the code generator only runs when the whole file is free of diagnostics, so batching would hide it"""
    out = []
    for op in INFIX:
        for a in ATOMS:
            for b in ATOMS:
                e = "%s %s %s" % (a, op, b)
                out.append(("matrix:infix:%s" % op, MATRIX_PRE + ("r = " + e if op != "=" else e) + "\n"))
                if op in ("?=", "==", "is", "&&", "<"):
                    out.append(("matrix:infix-cond:%s" % op, MATRIX_PRE + "if %s {\n}\n" % e))
    for pre in ["-", "!", "get ", "typeof ", "return ", "assert ", "print ", "modify v = ", "export x = ", "const c = "]:
        for a in ATOMS:
            out.append(("matrix:prefix:%s" % pre.strip(), MATRIX_PRE + (("p = " if pre in ("-", "!", "get ", "typeof ") else "") + pre + a) + "\n"))
    for post in ["()", "(1)", "[0]", "[\"k\"]", ".n", ".len()", ".nosuch", " or 1", " or nil", ".n = 1", "[0] = 1", "[0] += 1", ".n += 1"]:
        for a in ATOMS:
            out.append(("matrix:postfix:%s" % post.strip(), MATRIX_PRE + "q = (%s)%s\n" % (a, post)))
            if not a.startswith(("[", "(", "-")):
                out.append(("matrix:postfix-bare:%s" % post.strip(), MATRIX_PRE + "%s%s\n" % (a, post)))
    return out


# ---- compositions in contexts: (outer expression form with a hole) x (inner form) x (statement form) x (place in the program).
# The matrix above stays at module level; code paths that depend on WHERE an expression stands (inside a class the type checker
# works with the class being defined, inside a closure with captured names, ...) need the same shapes in every place.
OUTER = ["(%s)", "-%s", "!%s", "get %s", "typeof %s", "%s + 1", "1 + %s", "%s == v", "(%s) or 1", "o or %s", "v or %s", "(o or %s)", "%s is nil", "[%s]", "[%s, 1]",
         "map[str, int] {\"k\": %s}", "(%s)[0]", "lst[%s]", "(%s).n", "(%s).len()", "idf(%s)", "(%s)()", "(%s)(1)", "k.add(%s)", "%s && true", "true || %s",
         "fn() -> int { return %s }", "(fn() -> int { return %s })()",
         # a call of the function being defined, with the shape as an argument / next to a function literal argument
         "self(%s)", "self(1, %s)", "self(%s, fn() -> int { return 1 })"]
INNER = ["true", "nil", "self", "Self", "1", "1.5", "\"s\"", "[]", "[[]]", "\"\"", "map[str, int] {}", "[][0]", "[[]][0][0]", "\"\"[0]", "[1]", "map[str, int] {\"k\": 1}", "fn() { }", "fn() -> int { return 1 }", "fn(n: int) -> int { return n }", "v", "o", "k", "K",
         "undeclared", "k.n", "self.n", "lst[0]", "idf(1)", "K()", "(o or 1)", "get o", "typeof v",
         # shapes that are themselves a diagnostic: the error has to travel out of every enclosing shape as a value
         "lst[-1]", "lst[1 - 2]", "lst[1.5]", "lst[B99999999999999999999]", "\"s\"[-1]", "[1, \"a\"][-1]", "k.zz", "idf()", "-\"s\"",
         # values whose type is spelled through an ALIAS, plain, optional and under a nested optional
         "ai", "oa", "mA[\"a\"]", "mA.remove(\"a\")"]
STMT = ["print %s", "r: int = %s", "r = %s", "return %s", "if %s {\n}", "k.n = %s", "lst[0] = %s", "assert %s",
        # the shape as start bound, end bound and step of a from loop (in a function / closure / method the operand may be CAPTURED)
        "from %s to 3 {\n}", "from 0 through %s, cq {\n}", "from 0 to 3 step %s {\n}"]
COMP_PRE = ("class K {\n\tn: int\n\tconstructor(self) {\n\t\tself.n = 1\n\t}\n\tfn add(self, d: int) -> int {\n\t\treturn self.n + d\n\t}\n}\n"
            "v = 1\no: int? = nil\nk = K()\nlst: [int...] = [1, 2]\nidf = fn(a: int) -> int {\n\treturn a\n}\ntype I int\nai: I = 1\noa: I? = nil\nmA = map[str, I?] {\"a\": 1}\n")
PLACES = {"module": "%s\n", "function": "w = fn() -> int {\n\t%s\n\treturn 0\n}\n", "closure": "w = fn() -> fn() -> int {\n\tc = 1\n\treturn fn() -> int {\n\t\t%s\n\t\treturn c\n\t}\n}\n",
          "method": "class W {\n\tn: int\n\tstep: (fn(int) -> int)?\n\tfn go(self) -> int {\n\t\t%s\n\t\treturn 0\n\t}\n}\n",
          "constructor": "class W {\n\tn: int\n\tconstructor(self) {\n\t\tself.n = 1\n\t\t%s\n\t}\n}\n",
          "closure-in-method": "class W {\n\tn: int\n\tfn go(self) -> int {\n\t\tc = 1\n\t\tq = fn() -> int {\n\t\t\t%s\n\t\t\treturn c\n\t\t}\n\t\treturn q()\n\t}\n}\n",
          "function-with-callback-parameter": "w = fn(a: int, cb: fn() -> int) -> int {\n\t%s\n\treturn 0\n}\n",
          "if-block": "if v == 1 {\n\t%s\n}\n", "loop-body": "from 0 to 2, i {\n\t%s\n}\n"}


def composition_inputs():
    out = []
    for pn, place in PLACES.items():
        indent = "\n" + "\t" * (place[:place.index("%s")].split("\n")[-1].count("\t"))
        for st_ in STMT:
            for o in OUTER:
                for i in INNER:
                    stmt = (st_ % (o % i)).replace("\n", indent)
                    out.append(("compose:%s:%s" % (pn, st_.split(" ")[0]), COMP_PRE + place % stmt))
    return out


# ---- statements in NESTED places: every control / declaration statement inside every stack of up to three enclosing constructs
# (loops, branches, functions, closures, methods, constructors): what a statement may refer to (the loop of a break, the function
# of a return, the module of an export) is found by walking the enclosing scopes, and every kind of frame must stop or pass that walk
NEST_STMTS = ["break", "continue", "return", "return 1", "import lib", "import shown from lib", "class Xc {\n}", "type Tt int", "export xe: int = 1", "modify v = 2", "const cc = 1",
              "assert true", "from 0 to 1 {\n}", "v ?= o", "print self", "self.n = 1"]
NEST_WRAP = {"from": "from 0 to 2 {\n%s\n}", "while": "while v < 0 {\n%s\n}", "if": "if v == 1 {\n%s\n}", "else": "if v == 2 {\n} else {\n%s\n}",
             "fn": "wf = fn() {\n%s\n}", "closure": "wc = fn() -> fn() {\n\tcv = 1\n\treturn fn() {\n%s\n\t}\n}", "method": "class Wm {\n\tn: int\n\tfn go(self) {\n%s\n\t}\n}",
             "ctor": "class Wk {\n\tn: int\n\tconstructor(self) {\n\t\tself.n = 1\n%s\n\t}\n}"}


def nesting_inputs():
    import itertools
    out = []

    def indent(text, n):
        return "\n".join("\t" * n + l for l in text.split("\n"))
    for depth in (1, 2, 3):
        for stack in itertools.product(NEST_WRAP, repeat=depth):
            if len(set(k for k in stack if k in ("method", "ctor"))) < sum(1 for k in stack if k in ("method", "ctor")):
                continue                    # the helper classes have fixed names: one of each per program
            for st_ in NEST_STMTS:
                text = st_
                for k in reversed(stack):
                    tmpl = NEST_WRAP[k]
                    pad = 2 if k in ("closure", "method", "ctor") else 1
                    text = tmpl % indent(text, pad)
                out.append(("nest:%s" % ">".join(stack), COMP_PRE + text + "\n"))
    return out


def import_inputs():
    """(import form) x (target: existing module, the file itself, a sub-directory module, a file that does not parse, a missing
    file, a directory) x (names: exported / private / undeclared / a type / a class / twice) x (context: top level, function,
    method, if, else, loop, closure in a loop)"""
    out = []
    stmts = []
    for target in ("lib", "f", "sub/deep", "broken", "nothere", "sub", "./lib", "sub/../lib"):
        stmts.append("import %s" % target)
        for names in ("shown", "hidden", "nosuch", "shown, fixed", "shown, nosuch", "shown, shown", "mk, hidden", "Pt", "type Num", "type Nosuch", "type Num, shown", "d", "f"):
            stmts.append("import %s from %s" % (names, target))
    use = "print 1"
    ctxs = {"top": "%s\n" + use + "\n", "fn": "w = fn() {\n\t%s\n\t" + use + "\n}\nw()\n", "method": "class W {\n\tfn go(self) {\n\t\t%s\n\t}\n}\n",
            "if": "if true {\n\t%s\n}\n", "else": "if false {\n} else {\n\t%s\n}\n", "loop": "from 0 to 2 {\n\t%s\n}\n",
            "closure-in-loop": "from 0 to 2 {\n\tw = fn() {\n\t\t%s\n\t}\n}\n", "after-use": "print shown\n%s\n"}
    for st_ in stmts:
        for cn, tmpl in ctxs.items():
            out.append(("import:%s:%s" % (cn, st_.split(" from ")[0].replace("import ", "")[:12]), tmpl % st_))
    return out


# ---- the complete single-edit neighbourhood of three hand-written, well-typed programs that between them use every construct
# (aliases, constants, fixed-shape and open lists, maps, optionals, classes with Self, closures, recursion, loops, unpacking):
# every token replaced by every word of a dictionary, every short snippet inserted at every token boundary, every token
# deleted.  Random mutation reaches such an input with probability ~ 1 / (tokens x dictionary); this family reaches all.
EDIT_IDENTS = {"c16_seed_values.ms": ["I", "Txt", "x", "o", "lst", "m", "fixed", "s"], "c16_seed_classes.ms": ["P", "p", "g", "xs", "w", "mk", "apply", "c"],
               "c16_seed_modules.ms": ["lib", "shown", "Num", "Pt", "words", "ages", "text", "acc", "maybe"]}
EDIT_WORDS = ["int", "float", "str", "bool", "Self", "self", "nil", "true", "false", "1", "0", "1.5", "B1", "0b1", "\"s\"",
              "+", "-", "*", "/", "%", "==", "!=", "<", "&&", "||", "or", "is", "?=", "=", "+=", ".", "?", "!", "get", "typeof", "const", "modify", "export", "return", "break", "continue",
              "print", "assert", "if", "else", "while", "from", "fn", "class", "type", "import", "(", ")", "[", "]", "{", "}", ",", ":", "->", "..."]
EDIT_SNIPPETS = [": int", ": Self?", "?", "-", "!", "get ", "typeof ", " or 1", " or \"abc\"", "[0]", "[1.5]", ".v", ".len()", "()", "(1)", " is nil", ": I", "...", "const ", "modify ", "export ", " + 1", " == nil"]
SEED_DIR = os.path.join(os.path.dirname(os.path.dirname(os.path.abspath(__file__))), "data")


def neighbourhood_inputs(tier, seed):
    out = []
    for fname in ("c16_seed_values.ms", "c16_seed_classes.ms", "c16_seed_modules.ms"):
        text = open(os.path.join(SEED_DIR, fname), encoding="utf-8").read()
        toks = TOK.findall(text)
        words = EDIT_IDENTS[fname] + EDIT_WORDS
        tag = "edit:" + fname[9:-3]
        out.append((tag + ":unchanged", text))
        for i, t in enumerate(toks):
            if t.isspace():
                for sn in EDIT_SNIPPETS:
                    out.append(("%s:insert" % tag, "".join(toks[:i]) + sn + "".join(toks[i:])))
                continue
            out.append(("%s:delete" % tag, "".join(toks[:i] + toks[i + 1:])))
            for w in words:
                if w != t:
                    out.append(("%s:replace" % tag, "".join(toks[:i]) + w + "".join(toks[i + 1:])))
            for sn in EDIT_SNIPPETS:
                out.append(("%s:insert" % tag, "".join(toks[:i + 1]) + sn + "".join(toks[i + 1:])))
    return out


# ---- text that is not ASCII in front of, inside and behind everything the compiler scans by hand (comment markers, string
# escapes, the bracket-depth guard, the line / column of a diagnostic): a character position is not a byte position as soon as
# one character needs more than one byte, and the difference grows with every such character
MB_PREFIX = ["# caf\u00e9\n", "# \u4e8c\u5206\u63a2\u7d22\u306e\u30c7\u30e2\n", "s0 = \"\u65e5\u672c\u8a9e\U0001F600\"\n", "### \u00e9\u00e8 ###\n",
             "x0 = \"\u00e9\" # \U0001F600\n", "###\n\t\u65e5\u672c\n###\n", "# \u0301\u200b\u2028 \ufeff\n"]
MB_FEATURE = [("closed-block-comment", "###\n\tsearch(xs): a comment\n###\nv1 = 1\nprint v1\n"),
              ("block-comment-in-statement", "v1 = 1 ### c ### + 2\nprint v1\n"),
              ("unclosed-block-comment", "v1 = 1\n### never closed\nprint [[v1]]\n"),
              ("two-block-comments", "### a ###\nv1 = 1\n### b ###\nprint v1\n"),
              ("hash-runs", "## two\n#### four\n##### five ###\nv1 = 1\n###### six\n"),
              ("string-escapes", "v1 = \"a\\\"b\\\\\" + \"\\n#\" # c\nprint v1\n"),
              ("string-with-hashes", "v1 = \"### not a comment\"\nprint v1 ### c ###\n"),
              ("type-error", "v1: int = \"s\"\n"), ("syntax-error", "v1 = = 1\n"), ("unknown-name", "print nowhere\n"),
              ("assert", "assert 1 == 2\n"), ("get-nil", "o1: int? = nil\nprint get o1\n"),
              ("deep-brackets", "const d1 = " + "[" * 300 + "1" + "]" * 300 + "\n"),
              ("unclosed-brackets", "const d1 = " + "[" * 300 + "\n"),
              ("class", "class K1 {\n\tn: int\n\tconstructor(self) {\n\t\tself.n = 1\n\t}\n}\nprint K1().n\n"),
              ("same-line-diagnostic", "v1 = \"\u65e5\u672c\" + 1 - nowhere # \u00e9\n"),
              ("non-ascii-identifier", "caf\u00e9 = 1\nprint caf\u00e9\n"), ("non-ascii-operator", "v1 = 1 \u00d7 2\n")]


def multibyte_inputs():
    out = []
    for pi, pre in enumerate(MB_PREFIX):
        for k in (1, 2, 3, 5):
            for name, feat in MB_FEATURE:
                out.append(("multibyte:prefix%d-x%d:%s" % (pi, k, name), pre * k + feat))
    # the same text behind and in the middle of the feature
    for pi, pre in enumerate(MB_PREFIX):
        for name, feat in MB_FEATURE:
            out.append(("multibyte:suffix%d:%s" % (pi, name), feat + pre))
            lines = feat.split("\n")
            out.append(("multibyte:infix%d:%s" % (pi, name), "\n".join(lines[:1]) + "\n" + pre + "\n".join(lines[1:])))
    return out


# ---- deep type pairs: two types of the same deep shape that are equal, or differ only at the core, met at every place where the
# compiler compares an expected with a supplied type. The near-miss pairs above stay at depth <= 3; a comparison that visits a
# level more than once is invisible there and exponential here (30 levels of `[T...]` are 250 bytes of input)
DEEP_WRAP = {"open-list": ("[", "...]"), "fixed-list": ("[", ", int]"), "map-value": ("map[str, ", "]"), "fn-result": ("fn() -> ", ""),
             "fn-param": ("fn(", ")"), "list-of-optional": ("[", "?...]"), "map-of-list": ("map[int, [", "...]]"),
             "fixed-list-of-optional": ("[", "?, int]"), "map-of-optional": ("map[str, ", "?]"), "optional-fn-result": ("fn() -> ", "?"),
             "list-of-fn": ("[fn() -> ", "...]"), "fn-of-list-param": ("fn([", "...])"), "optional-fn-param": ("fn(", "?)"),
             "fixed-pair": ("[int, ", "]"), "list-of-map": ("[map[str, ", "]...]"),
             "fn-two-params": ("fn(int, ", ")"), "fn-param-and-result": ("fn(int) -> ", "")}
DEEP_USE = {"typed-decl": "a: %(A)s = %(V)s\nx: %(B)s = a\n", "argument": "a: %(A)s = %(V)s\nf = fn(q: %(B)s) {}\nf(a)\n",
            "result": "a: %(A)s = %(V)s\nf = fn() -> %(B)s {\n\treturn a\n}\n", "reassign": "a: %(A)s = %(V)s\nb: %(B)s = %(V)s\nb = a\n",
            "equality": "a: %(A)s = %(V)s\nb: %(B)s = %(V)s\nprint a == b\n", "push": "a: %(A)s = %(V)s\nl: [%(B)s...] = []\nl.push(a)\n",
            "field": "class Kd {\n\tv: %(B)s\n\tconstructor(self, v: %(A)s) {\n\t\tself.v = v\n\t}\n}\n", "or": "a: %(A)s? = nil\nb: %(B)s = %(V)s\nx = (a) or b\n"}


def deep_type(kind, depth, core):
    o, c = DEEP_WRAP[kind]
    if kind == "mixed":
        raise ValueError
    return o * depth + core + c * depth


def deep_typepair_inputs():
    out = []
    kinds = sorted(DEEP_WRAP)
    for depth in (8, 16, 24, 32, 48, 100):
        for kind in kinds:
            for cores in (("int", "str"), ("int", "int"), ("int", "int?"), ("Kx", "Ky")):
                for use in sorted(DEEP_USE):
                    a, b = deep_type(kind, depth, cores[0]), deep_type(kind, depth, cores[1])
                    v = "[]" if kind in ("open-list", "list-of-optional") else None
                    if v is None:
                        # no literal of this type can be written without the type: take the value from a parameter
                        body = DEEP_USE[use] % {"A": a, "B": b, "V": "p0"}
                        lines = body.split("\n")
                        text = "w0 = fn(p0: %s) {\n%s}\n" % (a, "".join("\t" + l + "\n" for l in lines if l)) if use != "field" else body
                    else:
                        text = DEEP_USE[use] % {"A": a, "B": b, "V": v}
                    pre = "class Kx {\n}\nclass Ky {\n}\n" if cores[0] == "Kx" else ""
                    if len(pre + text) <= 4000:
                        out.append(("deep-typepair:%s:%d:%s-vs-%s:%s" % (kind, depth, cores[0], cores[1], use), pre + text))
    # alternating wrappers
    orders = [("open-list", "map-value", "fixed-list", "fn-result"), tuple(kinds), tuple(reversed(kinds)), tuple(kinds[::2] + kinds[1::2]),
              ("list-of-optional", "fn-param"), ("fn-of-list-param", "list-of-optional", "map-of-optional")]
    for oi, order in enumerate(orders):
        for depth in (10, 20, 30, 60):
            for cores in (("int", "str"), ("int", "int"), ("int", "int?")):
                def alt(core):
                    t = core
                    for i in range(depth):
                        k = order[i % len(order)]
                        t = DEEP_WRAP[k][0] + t + DEEP_WRAP[k][1]
                    return t
                for use in ("argument", "result", "field", "equality"):
                    body = DEEP_USE[use] % {"A": alt(cores[0]), "B": alt(cores[1]), "V": "p0"}
                    text = body if use == "field" else "w0 = fn(p0: %s) {\n%s}\n" % (alt(cores[0]), "".join("\t" + l + "\n" for l in body.split("\n") if l))
                    if len(text) <= 4000:
                        out.append(("deep-typepair:alternating%d:%d:%s-vs-%s:%s" % (oi, depth, cores[0], cores[1], use), text))
    return out


def enumerated(tier, seed):
    cases = [{"family": "boundary:" + n, "text": t} for n, t in boundary_inputs()]
    cases += [{"family": n, "text": t} for n, t in deep_typepair_inputs()]
    cases += [{"family": n, "text": t} for n, t in multibyte_inputs()]
    cases += [{"family": n, "text": t} for n, t in neighbourhood_inputs(tier, seed)]
    cases += [{"family": n, "text": t} for n, t in import_inputs()]
    cases += [{"family": n, "text": t} for n, t in typepair_matrix()]
    cases += [{"family": n, "text": t} for n, t in matrix_inputs()]
    cases += [{"family": n, "text": t} for n, t in composition_inputs()]
    cases += [{"family": n, "text": t} for n, t in nesting_inputs()]
    cases += [{"family": n, "text": t} for n, t in opener_pair_inputs()]
    return cases


def mutate(g, text):
    toks = TOK.findall(text)
    if not toks:
        return text
    rules()
    for _ in range(g.int(1, 4)):
        i = g.int(0, len(toks) - 1)
        op = g.choice(["delete", "insert", "dup", "swap", "replace", "replace"] + (["multibyte"] if g.chance(30) else []))
        if op == "multibyte":
            # text that is not ASCII (a comment line, a string, a comment marker) at a token boundary
            toks.insert(i, g.choice(MB_PREFIX + ["\"\u00e9\"", " # \u65e5\n", "\u00e9", "### \U0001F600 ###", "###"]))
        elif op == "delete":
            del toks[i]
        elif op == "insert":
            toks.insert(i, g.choice(_terms))
        elif op == "dup":
            toks.insert(i, toks[i])
        elif op == "swap" and len(toks) > 1:
            j = g.int(0, len(toks) - 1)
            toks[i], toks[j] = toks[j], toks[i]
        else:
            toks[i] = g.choice(_terms)
        if not toks:
            break
    return "".join(toks)


# ---- near-miss type pairs: a random type T, a structurally close type T', and a value of T' supplied where T is wanted.
# The diagnostics (and their hints) for every kind of mismatch are built by code that the other families rarely reach.
PRIMS = ["int", "float", "str", "bool", "byte", "bigint"]
LIT = {"int": "1", "float": "1.5", "str": "\"a\"", "bool": "true", "byte": "0b1", "bigint": "B1"}


def gen_type(g, depth):
    k = g.weighted([(6, "prim"), (2, "open"), (3, "fixed"), (1, "map"), (2, "opt"), (1, "fn"), (1, "class"), (1, "alias")]) if depth > 0 else "prim"
    if k == "prim":
        return ("prim", g.choice(PRIMS))
    if k == "open":
        return ("open", gen_type(g, depth - 1))
    if k == "fixed":
        return ("fixed", [gen_type(g, depth - 1) for _ in range(g.int(0, 4))])
    if k == "map":
        return ("map", ("prim", g.choice(["str", "int", "bool"])), gen_type(g, depth - 1))
    if k == "opt":
        return ("opt", gen_type(g, depth - 1))
    if k == "fn":
        return ("fn", [gen_type(g, depth - 1) for _ in range(g.int(0, 3))], gen_type(g, depth - 1) if g.chance(70) else None)
    if k == "class":
        return ("class", g.choice(["Ka", "Kb"]))
    return ("alias", g.choice(["Num", "Txt", "Pair"]))


def type_text(t):
    k = t[0]
    if k == "prim" or k == "class" or k == "alias":
        return t[1]
    if k == "open":
        return "[%s...]" % type_text(t[1])
    if k == "fixed":
        return "[%s]" % ", ".join(type_text(x) for x in t[1])
    if k == "map":
        return "map[%s, %s]" % (type_text(t[1]), type_text(t[2]))
    if k == "opt":
        inner = type_text(t[1])
        return ("(%s)?" % inner) if t[1][0] == "fn" else inner + "?"
    return "fn(%s)%s" % (", ".join(type_text(x) for x in t[1]), (" -> " + type_text(t[2])) if t[2] else "")


def value_text(g, t, depth=0):
    k = t[0]
    if k == "prim":
        return LIT[t[1]]
    if k == "class":
        return t[1] + "()"
    if k == "alias":
        return {"Num": "1", "Txt": "\"t\"", "Pair": "[1, 2]"}[t[1]]
    if k == "open":
        return "[%s]" % ", ".join(value_text(g, t[1], depth + 1) for _ in range(g.int(0, 3)))
    if k == "fixed":
        return "[%s]" % ", ".join(value_text(g, x, depth + 1) for x in t[1])
    if k == "map":
        return "map[%s, %s] {%s: %s}" % (type_text(t[1]), type_text(t[2]), value_text(g, t[1], depth + 1), value_text(g, t[2], depth + 1))
    if k == "opt":
        return "nil" if g.chance(30) else value_text(g, t[1], depth + 1)
    params = ", ".join("p%d: %s" % (i, type_text(x)) for i, x in enumerate(t[1]))
    if t[2] is None:
        return "fn(%s) { }" % params
    return "fn(%s) -> %s { return %s }" % (params, type_text(t[2]), value_text(g, t[2], depth + 1))


def near(g, t, depth=0):
    """a type structurally close to t (one edit somewhere inside it)"""
    k = t[0]
    choices = ["other"]
    if k in ("open", "opt"):
        choices += ["inner", "inner", "unwrap"]
    if k == "fixed":
        choices += ["elem", "elem", "drop", "add", "to-open"] if t[1] else ["add"]
    if k == "map":
        choices += ["key", "value", "value"]
    if k == "fn":
        choices += ["ret", "ret", "param", "arity"]
    if k in ("prim", "class", "alias"):
        choices += ["wrap-opt", "wrap-list", "sibling"]
    c = g.choice(choices)
    if c == "other":
        return gen_type(g, 1)
    if c == "inner":
        return (k, near(g, t[1], depth + 1))
    if c == "unwrap":
        return t[1]
    if c == "elem":
        i = g.int(0, len(t[1]) - 1)
        return ("fixed", [near(g, x, depth + 1) if j == i else x for j, x in enumerate(t[1])])
    if c == "drop":
        i = g.int(0, len(t[1]) - 1)
        return ("fixed", [x for j, x in enumerate(t[1]) if j != i])
    if c == "add":
        l = list(t[1])
        l.insert(g.int(0, len(l)), gen_type(g, 1))
        return ("fixed", l)
    if c == "to-open":
        return ("open", t[1][0])
    if c == "key":
        return ("map", ("prim", g.choice(["str", "int", "bool", "float"])), t[2])
    if c == "value":
        return ("map", t[1], near(g, t[2], depth + 1))
    if c == "ret":
        return ("fn", t[1], near(g, t[2], depth + 1) if t[2] is not None and g.chance(70) else (None if t[2] is not None else gen_type(g, 1)))
    if c == "param":
        if not t[1]:
            return ("fn", [gen_type(g, 1)], t[2])
        i = g.int(0, len(t[1]) - 1)
        return ("fn", [near(g, x, depth + 1) if j == i else x for j, x in enumerate(t[1])], t[2])
    if c == "arity":
        return ("fn", t[1][:-1] if t[1] and g.chance(50) else t[1] + [gen_type(g, 1)], t[2])
    if c == "wrap-opt":
        return ("opt", t)
    if c == "wrap-list":
        return ("open", t) if g.chance(50) else ("fixed", [t, gen_type(g, 0)])
    if k == "prim":
        return ("prim", g.choice(PRIMS))
    return gen_type(g, 0)


TYPEPAIR_PRE = "class Ka {\n\tn: int\n\tconstructor(self) {\n\t\tself.n = 1\n\t}\n}\nclass Kb {\n\tfn me(self) -> Self {\n\t\treturn self\n\t}\n}\ntype Num int\ntype Txt str\ntype Pair [int...]\n"


def gen_typepairs(g):
    out = [TYPEPAIR_PRE]
    for i in range(g.int(1, 5)):
        t = gen_type(g, g.int(1, 3))
        t2 = near(g, t) if g.chance(85) else t
        tt, v2, v1 = type_text(t), value_text(g, t2), value_text(g, t)
        pos = g.choice(["decl", "const-decl", "arg", "reassign", "return", "or", "field", "element", "mapvalue", "compare", "index"])
        n = "w%d" % i
        if pos == "decl":
            out.append("%s: %s = %s" % (n, tt, v2))
        elif pos == "const-decl":
            out.append("const %s: %s = %s" % (n, tt, v2))
        elif pos == "arg":
            out.append("%s = fn(p: %s) {\n}\n%s(%s)" % (n, tt, n, v2))
        elif pos == "reassign":
            out.append("%s: %s = %s\n%s = %s" % (n, tt, v1, n, v2))
        elif pos == "return":
            out.append("%s = fn() -> %s {\n\treturn %s\n}" % (n, tt, v2))
        elif pos == "or":
            out.append("%s: %s = nil\n%sr = (%s) or %s" % (n, type_text(("opt", t)), n, n, v2))
        elif pos == "field":
            out.append("class C%d {\n\tf: %s\n\tconstructor(self) {\n\t\tself.f = %s\n\t}\n}" % (i, tt, v2))
        elif pos == "element":
            out.append("%s: [%s...] = [%s, %s]" % (n, tt, v1, v2))
        elif pos == "mapvalue":
            out.append("%s = map[str, %s] {\"k\": %s}" % (n, tt, v2))
        elif pos == "compare":
            out.append("%s: %s = %s\n%sc = %s %s %s" % (n, tt, v1, n, n, g.choice(["==", "!=", "is", "<", "+"]), v2))
        else:
            out.append("%s: %s = %s\n%si = %s[%s]" % (n, tt, v1, n, n, g.choice(["0", "1", "5", "-1", "\"k\"", "true"])))
    return "\n".join(out) + "\n"


def near_all(t):
    """every single structural edit of t (deterministic counterpart of near())"""
    P = lambda n: ("prim", n)
    subs = [P("int"), P("str"), P("bool")]
    k = t[0]
    out = []
    if k in ("prim", "class", "alias"):
        out += [x for x in subs if x != t] + [("opt", t), ("open", t), ("fixed", [t, P("str")]), ("class", "Ka")]
    elif k in ("open", "opt"):
        out += [(k, x) for x in near_all(t[1])[:3]] + [t[1], ("fixed", [t[1]]), ("fixed", [t[1], t[1]])]
    elif k == "fixed":
        for i in range(len(t[1])):
            for x in subs:
                if x != t[1][i]:
                    out.append(("fixed", [x if j == i else y for j, y in enumerate(t[1])]))
            out.append(("fixed", [y for j, y in enumerate(t[1]) if j != i]))
            out.append(("fixed", t[1][:i] + [P("bool")] + t[1][i:]))
        out.append(("fixed", t[1] + [P("int")]))
        out.append(("fixed", t[1][:1]))
        if t[1]:
            out.append(("open", t[1][0]))
    elif k == "map":
        out += [("map", P("int"), t[2]), ("map", t[1], P("bool")), ("map", t[1], ("opt", t[2])), ("open", t[2])]
    elif k == "fn":
        out += [("fn", t[1], P("str")), ("fn", t[1], None), ("fn", t[1] + [P("int")], t[2]), ("fn", t[1][:-1], t[2]) if t[1] else ("fn", [P("bool")], t[2]),
                ("fn", [P("str")] + t[1][1:], t[2]) if t[1] else ("fn", [], P("bool"))]
    return out


def typepair_matrix():
    """a fixed catalogue of types x every single structural edit x four typed positions (one mismatch per input)"""
    P = lambda n: ("prim", n)
    base = [P("int"), P("str"), P("float"), ("open", P("int")), ("open", ("open", P("str"))), ("opt", P("int")), ("opt", ("open", P("int"))),
            ("fixed", [P("int"), P("str")]), ("fixed", [P("int"), P("str"), P("bool")]), ("fixed", [P("int"), ("open", P("str")), P("bool"), P("int")]), ("fixed", []),
            ("fixed", [("fixed", [P("int"), P("str")]), P("bool")]), ("map", P("str"), P("int")), ("map", P("str"), ("open", P("int"))),
            ("fn", [P("int")], P("int")), ("fn", [], None), ("fn", [P("int"), P("str")], ("opt", P("int"))), ("class", "Ka"), ("alias", "Num"), ("opt", ("class", "Kb"))]

    class D:          # deterministic stand-in for the draw helper used by value_text
        chance = staticmethod(lambda pct: False)
        int = staticmethod(lambda lo, hi: min(hi, max(lo, 2)))
    out = []
    for t in base:
        tt = type_text(t)
        for t2 in near_all(t):
            v2, v1 = value_text(D, t2), value_text(D, t)
            for pos, body in (("decl", "const w: %s = %s" % (tt, v2)), ("arg", "w = fn(p: %s) {\n}\nw(%s)" % (tt, v2)),
                              ("return", "w = fn() -> %s {\n\treturn %s\n}" % (tt, v2)), ("reassign", "const c0: %s = %s\nw: %s = %s\nw = %s" % (tt, v1, tt, v1, v2))):
                out.append(("typepair-matrix:" + pos, TYPEPAIR_PRE + body + "\n"))
    return out


def special_idents():
    """identifier-shaped terminals of the grammar (true, false, nil, self, type names ...): they lex as identifiers in many positions"""
    rules()
    return sorted(set(t for t in _terms if re.match(r"^[A-Za-z_][A-Za-z_0-9]*$", t)))


@st.composite
def inputs(draw):
    g = G(draw)
    fam = g.weighted([(4, "grammar"), (3, "mutant-corpus"), (3, "mutant-generated"), (4, "typepair")])
    if fam == "typepair":
        text = gen_typepairs(g)
        if g.chance(15):
            text = mutate(g, text)
        return {"family": fam, "text": text}
    if fam == "grammar":
        gen = pestgen.Gen(rules(), g, max_depth=g.int(6, 16), special=special_idents())
        n = g.int(1, 6)
        text = "\n".join(gen.gen_rule("declaration", 0, False) for _ in range(n)) + "\n"
        return {"family": fam, "text": text}
    if fam == "mutant-corpus":
        c = corpus()
        return {"family": fam, "text": mutate(g, c[g.int(0, len(c) - 1)])}
    from . import c01, c12, c13, c08
    mod = g.choice([c01, c12, c13, c08])
    case = draw(mod.strategy("quick"))
    return {"family": fam, "text": mutate(g, mod.files(case)["main.ms"])}


def strategy(tier):
    return inputs()


def n_random(tier):
    return 16000 if tier == "quick" else 300000


def extra_phase(tier, seed):
    """thorough tier: a libFuzzer campaign (cargo-fuzz, ASan, debug assertions) against the in-memory compile hook; every
    saved artifact is re-judged through the CLI by check(), so only crashes the real binary reproduces are reported."""
    import subprocess, shutil, tempfile, time
    if tier != "thorough":
        return [], None
    verif = os.path.dirname(os.path.dirname(os.path.dirname(os.path.abspath(__file__))))
    repo = os.environ.get("VERIF_REPO", "/repo")
    fdir = os.path.join(verif, "fuzzing", "fuzz")
    toml = open(os.path.join(fdir, "Cargo.toml.in")).read().replace("@REPO@", repo)
    open(os.path.join(fdir, "Cargo.toml"), "w").write(toml)
    shutil.copy(os.path.join(repo, "Cargo.lock"), os.path.join(fdir, "Cargo.lock"))
    env = dict(os.environ, RUSTFLAGS="--cfg mscript_verif", CARGO_NET_OFFLINE="true",
               CARGO_TARGET_DIR=os.path.join(verif, ".cache", "target-fuzz"))
    b = subprocess.run(["cargo", "+nightly", "fuzz", "build", "--fuzz-dir", fdir, "compile_total"], cwd=os.path.join(verif, "fuzzing"), env=env,
                       capture_output=True, text=True)
    if b.returncode != 0:
        raise RuntimeError("cargo fuzz build failed: " + b.stderr[-800:])
    work = tempfile.mkdtemp(prefix="msv-fuzz-", dir="/dev/shm")
    try:
        corp, art = os.path.join(work, "corpus"), os.path.join(work, "art")
        os.makedirs(corp)
        os.makedirs(art)
        for i, t in enumerate(corpus()[:80]):
            open(os.path.join(corp, "seed%d.ms" % i), "w").write(t)
        rules()
        with open(os.path.join(work, "dict.txt"), "w") as f:
            for t in _terms:
                f.write("\"" + "".join(("\\x%02x" % b) for b in t.encode("utf-8")) + "\"\n")
        secs = int(os.environ.get("MSV_FUZZ_SECONDS", "600"))
        t0 = time.time()
        p = subprocess.run(["cargo", "+nightly", "fuzz", "run", "--fuzz-dir", fdir, "compile_total", corp, "--",
                            "-max_total_time=%d" % secs, "-max_len=4096", "-len_control=0", "-dict=" + os.path.join(work, "dict.txt"),
                            "-artifact_prefix=" + art + "/", "-timeout=10", "-fork=16", "-ignore_crashes=1", "-ignore_timeouts=1", "-ignore_ooms=1",
                            "-seed=%d" % (seed + 1)], cwd=work, env=env, capture_output=True, text=True, timeout=secs + 600)
        cases = []
        for name in sorted(os.listdir(art)):
            try:
                text = open(os.path.join(art, name), "rb").read().decode("utf-8", "ignore")
            except OSError:
                continue
            cases.append({"family": "libfuzzer:" + name.split("-")[0], "text": text})
        tail = [l for l in p.stderr.splitlines() if "cov:" in l or "Done" in l][-2:]
        info = {"engine": "libFuzzer via cargo-fuzz (fork=16, ASan, debug assertions)", "seconds": round(time.time() - t0), "artifacts": len(cases),
                "corpus_files_after": len(os.listdir(corp)), "last_status_lines": tail}
        return cases, info
    finally:
        shutil.rmtree(work, ignore_errors=True)
