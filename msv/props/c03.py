"""C03 — ill-typed programs are rejected with a diagnostic before anything runs."""
import os, re
from hypothesis import strategies as st
from ..engine import CaseResult, fail, match_known
from .. import scenario
from ..gen import G

ID = "C03"
LEVEL = "fault_enumeration"
RULE = ("a Hypothesis generator assembles well-typed base programs from typed snippets (annotated initializer, re-assignment, "
        "call arguments, returns, conditions of if / else-if / while / assert, list index and element, operators, field and "
        "method use, from-loop bounds and step, map key and value, function- / class- / map-typed positions, fixed-shape list "
        "literals) placed in syntactic contexts (module level, function, closure, method, functions and methods whose returns sit "
        "in if / else-if / else arms or inside a loop that precedes the trailing return, else-if arm, loop body, through a type alias, in an imported module); every typed SITE of the "
        "program is recorded; the control (base program) must compile and run; then EVERY applicable fault of a fixed catalogue "
        "is applied at EVERY site, one at a time: value of another kind family (number / str / bool / list / function / object), "
        "a present OPTIONAL of the expected type, a near-miss function / list / map / class type, a fixed-shape list literal with "
        "a wrong / extra / missing element, a return statement replaced by a print (missing return on one path), "
        "one argument more / fewer, bare return, value returned from a void function, undeclared identifier, unknown field / "
        "method, a method read as a value or a field called at the end of a dot chain of one to three links, call of a non-function, index of a non-indexable, operator on unsupported kinds. Two ENUMERATED matrices are added to the random programs: (a) typed positions - 8 expected types (open list, fixed-shape list, map, function, function with an optional parameter, object, list of objects, optional) x 12 positions (declaration, re-assignment, argument, return from a function / method / closure / second return path, field initialisation and assignment, list element, push, map value) x every near-miss value of the type (other element / key / value / return type, OPTIONAL elements or results, other arity or length, optional of the type); (b) scope visibility - a name that IS declared, used where its scope does not reach (other branch of the same if, else-if condition, after a loop, outside a function / class, in a sibling function or method, parameters of another method, methods by their bare name, before the declaration). Oracle per mutant: exit status "
        "1 (not 101/134), a diagnostic `--> <right file>:<line of the mutated statement>:col`, and none of the program's output "
        "(`@START` is its first statement). evaluations = mutants. Non-trivial = the site is nested (not a top-level statement of "
        "the entry module); distinct by (program, site, fault)")
ASSUMPTIONS = ["documented coercions (T -> T?, numeric promotion, str + any, operators applied to optionals) are kept out of the catalogue, so no mutant is well-typed",
               "for a missing return the diagnostic may name any line of the enclosing function",
               "the diagnostic's line must be the line of the mutated statement (all snippets are single-line statements or block headers)"]

# wrong-family replacement expressions per expected family; g_* are globals of every base program
WRONG = {
    "num": ["\"txt\"", "true", "g_list", "g_fn", "g_obj"],
    "str": ["7", "true", "g_list", "g_fn", "g_obj"],
    "bool": ["7", "\"txt\"", "g_list", "g_fn"],
    "list": ["7", "\"txt\"", "true", "g_fn", "g_slist", "g_oilist"],
    "obj": ["7", "\"txt\"", "true", "g_list", "g_other"],
    # near-miss function types for `fn(int) -> int`: other return type, no return value, other arity, other parameter type
    "fn1": ["g_fs", "g_fv", "add", "greet", "7", "g_list"],
    "map": ["g_map_ss", "g_map_is", "7", "g_list"],
    # families of the typed-position matrix (every entry is applied at every position)
    "T-list": ["g_slist", "g_oilist", "g_llist", "g_olist", "g_pair_is", "g_opair", "7", "g_map", "g_list.map(g_fo)", "g_list.map(g_fs)"],
    "T-fixed": ["g_oilist", "g_pair_is", "g_opair", "g_triple", "g_slist", "7"],
    # a fixed shape whose slots are of DIFFERENT kinds: an open list fits it only if its element type fits every slot
    "T-fixed2": ["g_slist", "g_list", "g_pair", "g_pair_is", "g_triple", "g_oilist", "7"],
    "T-map": ["g_map_ss", "g_map_so", "g_map_is", "g_list", "7"],
    "T-fn": ["g_fs", "g_fo", "g_fv", "g_f2", "greet", "7"],
    # a function that takes `int?` is wanted: one that takes a plain `int` cannot be called with nil
    "T-fnopt": ["g_fn", "g_fsop", "g_fs", "g_f2", "7"],
    "T-obj": ["g_other", "g_oobj", "7", "g_lobj"],
    "T-lobj": ["g_olobj", "g_list", "g_obj"],
    # a class of ANOTHER module that has the same name (and the same members) as the expected class: a different type all the same
    "T-twin": ["tb_twin", "tb.mk()", "tb.Pt(3)", "g_obj"],
    "T-ltwin": ["tb_ltwin", "[tb.mk()]", "g_lobj"],
    "T-optint": ["g_ostr", "\"txt\"", "g_list", "g_oilist"],
}
# expected type text, a well-typed value, whether the declaration must be const
TYPED = {"T-list": ("[int...]", "g_list", False), "T-fixed": ("[int, int]", "g_pair", True), "T-fixed2": ("[str, int]", "g_pair_si", True), "T-map": ("map[str, int]", "g_map", False), "T-fn": ("fn(int) -> int", "g_fn", False), "T-fnopt": ("fn(int?) -> int", "g_fop", False),
         "T-obj": ("G", "g_obj", False), "T-lobj": ("[G...]", "g_lobj", False), "T-optint": ("int?", "g_oint", False),
         "T-twin": ("Pt", "ta_mk()", False), "T-ltwin": ("[Pt...]", "ta_lmk()", False)}
TWIN_CLASS = "export class Pt {\n\tn: int\n\tconstructor(self, n: int) {\n\t\tself.n = n\n\t}\n\tfn get_n(self) -> int {\n\t\treturn self.n\n\t}\n}\n"
TWIN_FILES = {"ta.ms": TWIN_CLASS + "export ta_mk: fn() -> Pt = fn() -> Pt {\n\treturn Pt(1)\n}\nexport ta_lmk: fn() -> [Pt...] = fn() -> [Pt...] {\n\tl: [Pt...] = [Pt(1)]\n\treturn l\n}\n",
              "tb.ms": TWIN_CLASS + "export mk: fn() -> Pt = fn() -> Pt {\n\treturn Pt(2)\n}\nexport lmk: fn() -> [Pt...] = fn() -> [Pt...] {\n\tl: [Pt...] = [Pt(2)]\n\treturn l\n}\n"}
TWIN_IMPORTS = "import Pt, ta_mk, ta_lmk from ta\nimport tb\ntb_twin = tb.mk()\ntb_ltwin = tb.lmk()\n"
POSITIONS = ["decl", "reassign", "argument", "return", "return-method", "return-closure", "field-init", "field-assign", "element", "push", "mapvalue", "branch-return"]
PRELUDE = """g_list: [int...] = [1, 2, 3]
g_fn = fn(u: int) -> int {
	return u
}
class G {
	n: int
	constructor(self) {
		self.n = 1
	}
	fn get_n(self) -> int {
		return self.n
	}
	fn set_n(self, v: int) {
		self.n = v
	}
}
g_obj = G()
add = fn(x: int, y: int) -> int {
	return x + y
}
greet = fn(who: str) -> str {
	return "hi " + who
}
flag = fn(b: bool, n: int) -> bool {
	return b
}
total = fn(l: [int...]) -> int {
	return l.len()
}
type Num int
g_fs = fn(u: int) -> str {
	return "s"
}
g_fv = fn(u: int) {
}
apply = fn(f: fn(int) -> int, x: int) -> int {
	return f(x)
}
g_slist: [str...] = ["a"]
g_oilist: [int?...] = [1, nil]
g_map = map[str, int] {"k": 1}
g_map_ss = map[str, str] {"k": "v"}
g_map_is = map[int, int] {1: 1}
class H {
	n: int
	constructor(self) {
		self.n = 1
	}
}
g_other = H()
takes_g = fn(o: G) -> int {
	return o.n
}
takes_m = fn(m: map[str, int]) -> int {
	return m.len()
}
class W {
	inner: G
	constructor(self) {
		self.inner = G()
	}
	fn me(self) -> Self {
		return self
	}
}
g_w = W()
g_oint: int? = 5
g_int: int = 4
g_fl: float = 2.5
g_big: bigint = B7
g_ostr: str? = "s"
g_obool: bool? = true
g_olist: [int...]? = [1, 2]
g_llist: [[int...]...] = [[1]]
const g_pair: [int, int] = [1, 2]
const g_pair_si: [str, int] = ["a", 2]
const g_pair_is: [int, str] = [1, "a"]
const g_opair: [int?, int?] = [1, nil]
const g_triple: [int, int, int] = [1, 2, 3]
g_map_so = map[str, int?] {"k": nil}
g_fo = fn(u: int) -> int? {
	return nil
}
g_f2 = fn(u: int, w: int) -> int {
	return u
}
g_fop = fn(u: int?) -> int {
	return 1
}
g_fsop = fn(u: str?) -> int {
	return 1
}
g_oobj: G? = G()
g_olobj: [G?...] = [G(), nil]
g_lobj: [G...] = [G()]
"""
# a present optional of the expected type: `T?` where `T` is wanted is a type error in every typed position
# (the compiler's own hint: "unwrap this optional ... using the `get` keyword"); operator operands are exempt
OPTIONAL_OF = {"num": "g_oint", "str": "g_ostr", "bool": "g_obool", "list": "g_olist"}


class Site:
    def __init__(self, sid, family, good, line_no, kind="value", extra=None):
        self.sid, self.family, self.good, self.kind, self.extra = sid, family, good, kind, extra
        self.line_no = line_no


class Builder:
    """lines with {S<n>} placeholders + the list of sites"""
    def __init__(self, g, file_label):
        self.g = g
        self.lines = []
        self.sites = []
        self.n = 0
        self.file = file_label
        self.indent = 0
        self.fresh = 0

    def name(self, p="v"):
        self.fresh += 1
        return "%s%d%s" % (p, self.fresh, "x" if self.file == "lib.ms" else "")

    def site(self, family, good, kind="value", extra=None):
        self.n += 1
        sid = "%s#%d" % (self.file, self.n)
        self.sites.append(Site(sid, family, good, None, kind, extra))
        return "{%s}" % sid

    def add(self, text):
        self.lines.append("\t" * self.indent + text)


def snippet(b, kinds=None, in_fn_ret=None):
    """append one well-typed snippet with recorded sites"""
    g = b.g
    choice = g.choice(kinds or ["decl", "reassign", "call", "cond", "index", "oper", "member", "loop", "map", "listel", "alias", "bytearith", "callret", "tuple", "fnpos", "objpos"])
    if choice == "decl":
        t = g.choice(["int", "str", "bool", "list", "float"])
        v = b.name()
        if t == "int":
            b.add("%s: int = %s" % (v, b.site("num", str(g.int(0, 9)))))
        elif t == "float":
            b.add("%s: float = %s" % (v, b.site("num", "1.5")))
        elif t == "str":
            b.add("%s: str = %s" % (v, b.site("str", "\"s\"")))
        elif t == "bool":
            b.add("%s: bool = %s" % (v, b.site("bool", "true")))
        else:
            b.add("%s: [int...] = %s" % (v, b.site("list", "[1, 2]")))
    elif choice == "reassign":
        v = b.name()
        t = g.choice(["num", "str", "bool"])
        init = {"num": "1", "str": "\"a\"", "bool": "false"}[t]
        b.add("%s = %s" % (v, init))
        b.add("%s = %s" % (v, b.site(t, init)))
    elif choice == "call":
        v = b.name()
        which = g.choice(["add", "greet", "flag", "total"])
        if which == "add":
            b.add("%s = %s" % (v, b.site("call", "add(%s, %s)", "call", [("num", "1"), ("num", "2")])))
        elif which == "greet":
            b.add("%s = %s" % (v, b.site("call", "greet(%s)", "call", [("str", "\"bob\"")])))
        elif which == "flag":
            b.add("%s = %s" % (v, b.site("call", "flag(%s, %s)", "call", [("bool", "true"), ("num", "3")])))
        else:
            b.add("%s = %s" % (v, b.site("call", "total(%s)", "call", [("list", "g_list")])))
    elif choice == "cond":
        k = g.choice(["if", "while", "assert", "elif"])
        if k == "if":
            b.add("if %s {" % b.site("bool", "(g_obj.n > 0)"))
            b.add("\tprint \"t\"")
            b.add("}")
        elif k == "while":
            b.add("while %s {" % b.site("bool", "false"))
            b.add("}")
        elif k == "assert":
            b.add("assert %s" % b.site("bool", "true"))
        else:
            b.add("if g_obj.n < 0 {")
            b.add("\tprint \"n\"")
            b.add("} else if %s {" % b.site("bool", "(g_obj.n == 1)"))
            b.add("\tprint \"e\"")
            b.add("}")
    elif choice == "index":
        v = b.name()
        if g.chance(50):
            b.add("%s = g_list[%s]" % (v, b.site("num", "0", "index")))
        else:
            b.add("%s = %s[0]" % (v, b.site("list", "g_list", "indexable")))
    elif choice == "oper":
        v = b.name()
        op = g.choice(["-", "*", "/", "<", ">=", "&&", "||", "%", "&", "|", "xor", "<<", ">>"])
        if op in ("&&", "||"):
            b.add("%s = %s %s %s" % (v, b.site("bool", "true", "operand", op), op, b.site("bool", "false", "operand", op)))
        else:
            b.add("%s = %s %s %s" % (v, b.site("num", "8", "operand", op), op, b.site("num", "2", "operand", op)))
    elif choice == "bytearith":
        v = b.name()
        op = g.choice(["+", "-", "*"])
        b.add("%s = %s %s 0b1" % (v, b.site("num", "0b11", "operand-with-byte", op), op))
    elif choice == "member":
        v = b.name()
        k = g.choice(["field", "method", "setarg", "chain-field", "chain-method", "chain-call-method"])
        if k == "chain-field":
            b.add("%s = g_w.inner.%s" % (v, b.site("member", "n", "member")))
        elif k == "chain-method":
            b.add("%s = g_w.inner.%s" % (v, b.site("mcall", "get_n()", "mcall")))
        elif k == "chain-call-method":
            b.add("%s = g_w.me().inner.%s" % (v, b.site("mcall", "get_n()", "mcall")))
        elif k == "field":
            b.add("%s = g_obj.%s" % (v, b.site("member", "n", "member")))
        elif k == "method":
            if g.chance(50):
                b.add("%s = g_obj.%s()" % (v, b.site("member", "get_n", "member")))
            else:
                b.add("%s = g_obj.%s" % (v, b.site("mcall", "get_n()", "mcall")))
        else:
            b.add("g_obj.set_n(%s)" % b.site("num", "4"))
    elif choice == "loop":
        b.add("from %s to %s step %s {" % (b.site("num", "0"), b.site("num", "2"), b.site("num", "1")))
        b.add("}")
    elif choice == "map":
        v = b.name("m")
        b.add("%s = map[str, int] {\"k\": %s}" % (v, b.site("num", "5")))
        b.add("print %s[%s]" % (v, b.site("str", "\"k\"")))
    elif choice == "listel":
        v = b.name("l")
        b.add("%s: [int...] = [1, %s]" % (v, b.site("num", "2")))
        b.add("%s.push(%s)" % (v, b.site("num", "3")))
    elif choice == "alias":
        v = b.name()
        b.add("%s: Num = %s" % (v, b.site("num", "6")))
    elif choice == "callret":
        v = b.name()
        b.add("%s: int = %s" % (v, b.site("callee", "g_fn", "callee", "(1)")))
    elif choice == "fnpos":
        v = b.name("h")
        k = g.choice(["decl", "arg", "element", "reassign"])
        if k == "decl":
            b.add("%s: fn(int) -> int = %s" % (v, b.site("fn1", "g_fn")))
        elif k == "arg":
            b.add("%s = apply(%s, %s)" % (v, b.site("fn1", "g_fn"), b.site("num", "2")))
        elif k == "element":
            b.add("%s: [fn(int) -> int...] = [g_fn, %s]" % (v, b.site("fn1", "g_fn")))
        else:
            b.add("%s = g_fn" % v)
            b.add("%s = %s" % (v, b.site("fn1", "g_fn")))
    elif choice == "objpos":
        v = b.name("o")
        k = g.choice(["decl", "arg", "element", "reassign", "mapdecl", "maparg"])
        if k == "decl":
            b.add("%s: G = %s" % (v, b.site("obj", "g_obj")))
        elif k == "arg":
            b.add("%s = takes_g(%s)" % (v, b.site("obj", "g_obj")))
        elif k == "element":
            b.add("%s: [G...] = [g_obj, %s]" % (v, b.site("obj", "g_obj")))
        elif k == "reassign":
            b.add("%s = g_obj" % v)
            b.add("%s = %s" % (v, b.site("obj", "g_obj")))
        elif k == "mapdecl":
            b.add("%s: map[str, int] = %s" % (v, b.site("map", "g_map")))
        else:
            b.add("%s = takes_m(%s)" % (v, b.site("map", "g_map")))
    elif choice == "tuple":
        v = b.name("t")
        if g.chance(50):
            b.add("const %s: [int, str] = %s" % (v, b.site("tuple", "[%s, %s]", "tuple", [("num", "1"), ("str", "\"a\"")])))
        else:
            b.add("const %s: [int, str, bool] = %s" % (v, b.site("tuple", "[%s, %s, %s]", "tuple", [("num", "1"), ("str", "\"a\""), ("bool", "true")])))


def gen_program(g):
    """-> (files {name: template}, sites)"""
    main = Builder(g, "main.ms")
    lib = None
    main.add("print \"@START\"")
    ctxs = [g.choice(["module", "function", "closure", "method", "loop", "elif", "import", "module", "function", "branchfn", "loopfn"]) for _ in range(g.int(2, 5))]
    for ci, ctx in enumerate(ctxs):
        n = g.int(1, 3)
        if ctx == "module":
            for _ in range(n):
                snippet(main)
        elif ctx == "function":
            fname = main.name("f")
            ret = g.choice(["int", "str", "void"])
            main.add("%s = fn(pa: int, pb: str)%s {" % (fname, "" if ret == "void" else " -> " + ret))
            main.indent += 1
            for _ in range(n):
                snippet(main)
            if ret == "int":
                main.add("return %s" % main.site("num", "(pa + 1)", "return"))
            elif ret == "str":
                main.add("return %s" % main.site("str", "(pb + \"!\")", "return"))
            else:
                main.add("print %s" % main.site("voidfn", "pa", "voidreturn"))
            main.indent -= 1
            main.add("}")
            call = "%s(%s, %s)" if True else ""
            main.add(("r%d = " % ci if ret != "void" else "") + main.site("call", fname + "(%s, %s)", "call", [("num", "1"), ("str", "\"z\"")]))
        elif ctx == "branchfn":
            # a value-returning function / method whose returns sit in the arms of if / else-if / else, nothing after
            shape = g.choice(["ifelse", "ifelifelse", "nested"])
            method = g.chance(40)
            fname = main.name("bf")
            if method:
                main.add("class Br%d {" % ci)
                main.indent += 1
                main.add("fn pick(self, pa: int) -> int {")
            else:
                main.add("%s = fn(pa: int) -> int {" % fname)
            main.indent += 1
            for _ in range(n - 1):
                snippet(main, ["decl", "oper", "index", "call", "listel"])
            R = lambda text: main.add("return %s" % main.site("num", text, "return"))
            if shape == "ifelse":
                main.add("if pa > 0 {"); main.indent += 1; R("(pa + 1)"); main.indent -= 1
                main.add("} else {"); main.indent += 1; R("(pa - 1)"); main.indent -= 1
                main.add("}")
            elif shape == "ifelifelse":
                main.add("if pa > 5 {"); main.indent += 1; R("(pa + 1)"); main.indent -= 1
                main.add("} else if pa > 0 {"); main.indent += 1; R("(pa * 2)"); main.indent -= 1
                main.add("} else {"); main.indent += 1; R("0"); main.indent -= 1
                main.add("}")
            else:
                main.add("if pa > 0 {"); main.indent += 1
                main.add("if pa > 5 {"); main.indent += 1; R("(pa + 1)"); main.indent -= 1
                main.add("} else {"); main.indent += 1; R("(pa * 2)"); main.indent -= 1
                main.add("}"); main.indent -= 1
                main.add("} else {"); main.indent += 1; R("0"); main.indent -= 1
                main.add("}")
            main.indent -= 1
            main.add("}")
            if method:
                main.indent -= 1
                main.add("}")
                main.add("b%d = Br%d()" % (ci, ci))
                main.add("print b%d.pick(%s)" % (ci, main.site("num", "3")))
            else:
                main.add("print %s(%s)" % (fname, main.site("num", "3")))
        elif ctx == "loopfn":
            # a value-returning function / method whose last statement before the trailing return is a loop that returns:
            # without the trailing return some path (break, zero iterations, a false condition) falls off the end
            shape = g.choice(["while-true-break", "while-true", "while-cond", "from", "while-true-if-return"])
            method = g.chance(35)
            fname = main.name("lf")
            if method:
                main.add("class Lp%d {" % ci)
                main.indent += 1
                main.add("fn scan(self, pa: int) -> int {")
            else:
                main.add("%s = fn(pa: int) -> int {" % fname)
            main.indent += 1
            main.add("k = 0")
            head = {"while-true-break": "while true {", "while-true": "while true {", "while-cond": "while k < pa {", "from": "from 0 to pa {", "while-true-if-return": "while true {"}[shape]
            main.add(head)
            main.indent += 1
            main.add("k = k + 1")
            if shape == "while-true-break":
                main.add("if k > pa {")
                main.add("\tbreak")
                main.add("}")
            if shape == "while-true-if-return":
                main.add("if k > 1 {")
                main.add("\treturn %s" % main.site("num", "(pa + k)", "return-inner"))
                main.add("}")
                main.add("if k > 3 {")
                main.add("\tbreak")
                main.add("}")
            else:
                main.add("return %s" % main.site("num", "(pa + k)", "return-inner"))
            main.indent -= 1
            main.add("}")
            main.add("return %s" % main.site("num", "k", "return"))
            main.indent -= 1
            main.add("}")
            if method:
                main.indent -= 1
                main.add("}")
                main.add("lp%d = Lp%d()" % (ci, ci))
                main.add("print lp%d.scan(%s)" % (ci, main.site("num", "3")))
            else:
                main.add("print %s(%s)" % (fname, main.site("num", "3")))
        elif ctx == "closure":
            fname = main.name("mk")
            main.add("%s = fn(seed: int) -> fn() -> int {" % fname)
            main.indent += 1
            main.add("cap = seed")
            main.add("return fn() -> int {")
            main.indent += 1
            for _ in range(n):
                snippet(main, ["decl", "oper", "index", "cond", "member", "listel", "bytearith"])
            main.add("return %s" % main.site("num", "(cap + 1)", "return"))
            main.indent -= 1
            main.add("}")
            main.indent -= 1
            main.add("}")
            main.add("c%d = %s(%s)" % (ci, fname, main.site("num", "2")))
            main.add("print c%d()" % ci)
        elif ctx == "method":
            cname = "K%d" % ci
            main.add("class %s {" % cname)
            main.indent += 1
            main.add("v: int")
            main.add("constructor(self, v: int) {")
            main.add("\tself.v = %s" % main.site("num", "v"))
            main.add("}")
            main.add("fn work(self, k: int) -> int {")
            main.indent += 1
            for _ in range(n):
                snippet(main, ["decl", "oper", "index", "cond", "call", "listel", "map"])
            main.add("return %s" % main.site("num", "(self.v + k)", "return"))
            main.indent -= 1
            main.add("}")
            main.indent -= 1
            main.add("}")
            main.add("k%d = %s(%s)" % (ci, cname, main.site("num", "3")))
            main.add("print k%d.work(%s)" % (ci, main.site("num", "4")))
        elif ctx == "loop":
            main.add("from 0 to 2 {")
            main.indent += 1
            for _ in range(n):
                snippet(main, ["decl", "oper", "index", "cond", "call", "member", "map", "reassign"])
            main.indent -= 1
            main.add("}")
        elif ctx == "elif":
            main.add("if g_obj.n > 5 {")
            main.add("\tprint \"big\"")
            main.add("} else if g_obj.n == 1 {")
            main.indent += 1
            for _ in range(n):
                snippet(main, ["decl", "oper", "index", "call", "member", "map", "listel"])
            main.indent -= 1
            main.add("} else {")
            main.indent += 1
            snippet(main, ["decl", "oper", "call"])
            main.indent -= 1
            main.add("}")
        elif ctx == "import" and lib is None:
            lib = Builder(g, "lib.ms")
            lib.add("print \"@LIB\"")
            for _ in range(n):
                snippet(lib, ["decl", "oper", "index", "cond", "call", "member", "map", "listel", "reassign"])
            lib.add("export shared: int = %s" % lib.site("num", "11"))
            main.lines.insert(0, "import lib")
            main.add("print lib.shared - %s" % main.site("num", "1", "operand", "-"))
    main.add("print \"@END\"")
    files = {"main.ms": PRELUDE + "\n".join(main.lines) + "\n"}
    sites = list(main.sites)
    if lib is not None:
        files["lib.ms"] = PRELUDE + "\n".join(lib.lines) + "\n"
        sites += lib.sites
    return files, sites


PLACE = re.compile(r"\{((?:main|lib)\.ms#\d+)\}")


def good_text(site):
    if site.kind in ("call", "tuple"):
        return site.good % tuple(v for _, v in site.extra)
    if site.kind == "callee":
        return site.good + site.extra
    return site.good


def render(files, sites, mutate=None):
    """mutate = (sid, replacement text) -> rendered files and, for the mutated site, (file, line number)"""
    by = {s.sid: s for s in sites}
    out, where = {}, None
    for fname, tmpl in files.items():
        lines = []
        for ln, line in enumerate(tmpl.split("\n"), 1):
            def sub(m):
                nonlocal where
                sid = m.group(1)
                if mutate and sid == mutate[0]:
                    where = (fname, ln)
                    return mutate[1]
                return good_text(by[sid])
            lines.append(PLACE.sub(sub, line))
        out[fname] = "\n".join(lines)
    return out, where


def faults(site):
    """[(fault name, replacement text)]"""
    out = []
    if site.kind == "scope":
        return [("out-of-scope-name:" + n, n) for n in site.extra]
    if site.kind == "tail":
        return [("path-without-return:" + t, t) for t in site.extra]
    if site.family == "T-orfb":
        return [("optional-of-expected:g_oint", "g_oint"), ("near-miss-type:\"txt\"", "\"txt\""), ("near-miss-type:true", "true"), ("near-miss-type:g_list", "g_list"), ("near-miss-type:g_ostr", "g_ostr")]
    if site.family.startswith("T-ctr-"):
        w = {"T-ctr-int": ["0.5", "B1", "g_fl", "g_big"], "T-ctr-byte": ["1", "0.5", "B1", "g_int"], "T-ctr-bigint": ["0.5", "g_fl"], "T-ctr-float": []}[site.family]
        return [("counter-of-another-type:" + x, x) for x in w] + [("near-miss-type:true", "true"), ("near-miss-type:\"s\"", "\"s\"")]
    if site.family.startswith("T-oa-"):
        # right operands the operator accepts but whose result is of another type than the target (plus two it does not accept)
        w = {"T-oa-int": ["1.5", "B1", "g_fl", "g_big"], "T-oa-byte": ["1", "1.5", "B1", "g_int"], "T-oa-bigint": ["1.5", "g_fl"], "T-oa-float": []}[site.family]
        if site.extra == "+=":
            w = w + ["\"s\""]
        return [("result-of-another-type:" + x, x) for x in w] + [("near-miss-type:true", "true"), ("near-miss-type:g_obj", "g_obj")]
    if site.family.startswith("T-"):
        return [("near-miss-type:" + w, w) for w in WRONG[site.family]] + [("undeclared-name", "undeclared_zz")]
    k = site.kind
    if k in ("value", "return", "return-inner", "index", "operand"):
        fam = site.family
        for w in WRONG.get(fam, []):
            if k == "operand" and site.extra == "*" and w in ("\"txt\"", "g_list"):
                continue          # str * int and list * int are documented (repetition)
            out.append(("wrong-family:" + w, w))
        out.append(("undeclared-name", "undeclared_zz"))
        if k == "operand" and site.extra in ("&", "|", "xor", "<<", ">>"):
            # the bitwise and shift operators take whole numbers: a float - a variable, a call result, a literal - is a wrong kind
            out += [("float-operand-of-bit-operator:g_fl", "g_fl"), ("float-operand-of-bit-operator:1.5", "1.5"), ("float-operand-of-bit-operator:g_fl * 2.0", "(g_fl * 2.0)")]
        if k != "operand" and fam in OPTIONAL_OF:
            out.append(("optional-of-expected:" + OPTIONAL_OF[fam], OPTIONAL_OF[fam]))
        if k in ("return", "return-inner"):
            out.append(("bare-return", ""))
        if k == "return":
            out.append(("missing-return", None))               # handled specially: the return statement becomes a print
        if k == "index":
            out += [("index-str", "\"0\""), ("index-bool", "true")]
    elif k == "operand-with-byte":
        out += [("wrong-family-with-byte:true", "true"), ("wrong-family-with-byte:g_fn", "g_fn"), ("wrong-family-with-byte:g_obj", "g_obj")]
        if site.extra != "+":
            out.append(("wrong-family-with-byte:\"abc\"", "\"abc\""))       # str + any is documented
        if site.extra == "-":
            out.append(("wrong-family-with-byte:g_list", "g_list"))
    elif k == "indexable":
        # (a second postfix needs parentheses: `g_obj.n[0]` would parse as two statements)
        out += [("index-of-int", "(g_obj.n)"), ("index-of-bool", "true"), ("index-of-fn", "g_fn"), ("undeclared-name", "undeclared_zz")]
    elif k == "member":
        out += [("unknown-member", "nosuch"), ("unknown-member", "get_m")]
    elif k == "mcall":
        # the last link of a dot chain is a method call: a method read as a value, a field called, an unknown method, wrong arity
        out += [("method-as-value", "get_n"), ("call-of-field", "n()"), ("unknown-member", "nosuch()"), ("one-arg-more", "get_n(1)"), ("method-as-value", "set_n")]
    elif k == "callee":
        out += [("call-of-int", "(g_obj.n)" + site.extra), ("call-of-str", "\"f\"" + site.extra), ("call-of-list", "g_list" + site.extra), ("undeclared-name", "undeclared_zz" + site.extra)]
    elif k == "voidreturn":
        out.append(("value-in-void-function", None))       # handled specially: replace the statement
    elif k == "tuple":
        args = site.extra
        vals = [v for _, v in args]
        for i, (fam, v) in enumerate(args):
            m = list(vals)
            m[i] = WRONG[fam][0]
            out.append(("wrong-element-%d:%s" % (i, m[i]), site.good % tuple(m)))
        out.append(("one-element-more", "[" + ", ".join(vals + ["7"]) + "]"))
        out.append(("one-element-fewer", "[" + ", ".join(vals[:-1]) + "]"))
    elif k == "call":
        args = site.extra
        vals = [v for _, v in args]
        for i, (fam, v) in enumerate(args):
            for w in WRONG[fam][:3] + ([OPTIONAL_OF[fam]] if fam in OPTIONAL_OF else []):
                m = list(vals)
                m[i] = w
                out.append((("optional-arg-%d:%s" if w.startswith("g_o") and w != "g_obj" else "wrong-arg-%d:%s") % (i, w), site.good % tuple(m)))
        out.append(("one-arg-more", site.good.replace("%s)", "%s, 1)") % tuple(vals) if vals else None))
        fewer = site.good
        if len(vals) >= 1:
            name = site.good.split("(")[0]
            out.append(("one-arg-fewer", "%s(%s)" % (name, ", ".join(vals[:-1]))))
    return [(n, t) for n, t in out if t is not None or n in ("value-in-void-function", "missing-return")]


def enclosing_fn_span(lines, ln):
    """(first, last) line numbers of the innermost function / method whose body holds line ln (1-based)"""
    ind = lambda l: len(l) - len(l.lstrip("\t"))
    i = ln - 1
    cur = ind(lines[i])
    h = i - 1
    while h >= 0:
        l = lines[h]
        if l.strip() and ind(l) < cur:
            cur = ind(l)
            if re.search(r"\bfn\b.*\{\s*$", l):
                break
        h -= 1
    e = ln
    while e < len(lines) and not (lines[e].startswith("\t" * cur + "}") and ind(lines[e]) == cur):
        e += 1
    return (h + 1, e + 1)


def make_scenario(files, where, control=False, span=None):
    sc = {"files": {"p/q/r/" + k: v for k, v in files.items()}, "cwd": "p/q/r",
          "steps": [{"id": "run", "argv": ["mscript", "run", "main.ms", "-q"]}]}
    if control:
        sc["asserts"] = [{"kind": "exit", "step": "run", "in": ["ok"]}, {"kind": "stdout_has", "step": "run", "value": "@END"}]
    else:
        sc["asserts"] = [{"kind": "c03_rejected", "step": "run", "file": where[0], "line": where[1]}]
        if span:          # a missing return is a property of the function: any line of the enclosing function is a right position
            sc["asserts"][0].update(line_lo=span[0], line_hi=span[1])
    return sc


@scenario.assert_kind("c03_rejected")
def a_rejected(a, res, ctx):
    r = res[a["step"]]
    out = []
    if r.klass != "error":
        out.append("exit: expected a failing exit status 1, got %s (code %s) %r" % (r.klass, r.code, r.stderr[-200:]))
    if any(l in ("@START", "@LIB", "@END") for l in r.stdout.split("\n")):      # whole lines: diagnostics quote source text
        out.append("executed: program output appears although the program is ill-typed: %r" % r.stdout[:200])
    if r.klass == "error" and "Did not compile" not in r.stderr:
        out.append("no-compile-error: the failure is not a compilation failure: %r" % r.stderr[-300:])
    locs = re.findall(r"--> ([^\s:]+):(\d+):(\d+)", r.stdout)
    if r.klass == "error" and "Did not compile" in r.stderr:
        if not locs:
            out.append("position: no `--> file:line:col` diagnostic printed")
        elif not any(f == a["file"] and a.get("line_lo", a["line"]) <= int(l) <= a.get("line_hi", a["line"]) for f, l, c in locs):
            out.append("position: diagnostics name %s, the mutated statement is %s:%d" % (sorted(set("%s:%s" % (f, l) for f, l, c in locs))[:4], a["file"], a["line"]))
    return out or None


def check(case):
    files, sites = case["files"], case["sites"]
    base, _ = render(files, sites)
    sc0 = make_scenario(base, None, control=True)
    res0, fails0, _ = scenario.execute(sc0)
    if fails0:
        r = CaseResult(evals=0, labels=["control-failed"], rejected=True, sample={"main.ms": base["main.ms"][-500:]})
        if os.environ.get("MSV_DEBUG"):
            print("CONTROL FAILED:\n" + base["main.ms"] + "\n" + res0["run"].stdout[-600:] + res0["run"].stderr[-300:])
        return r
    n, nt, labels = 0, [], []
    first_known = None
    failure = None
    for s in sites:
        for fname, repl in faults(s):
            span = None
            if fname == "value-in-void-function":
                mut, where = render(files, sites, (s.sid, good_text(s)))
                f, ln = where
                lines = mut[f].split("\n")
                lines[ln - 1] = lines[ln - 1].replace("print ", "return ", 1)
                mut[f] = "\n".join(lines)
            elif fname == "missing-return":
                mut, where = render(files, sites, (s.sid, good_text(s)))
                f, ln = where
                lines = mut[f].split("\n")
                lines[ln - 1] = lines[ln - 1].replace("return ", "print ", 1)
                mut[f] = "\n".join(lines)
                span = enclosing_fn_span(lines, ln)
            else:
                mut, where = render(files, sites, (s.sid, repl))
                if s.kind == "tail":
                    span = enclosing_fn_span(mut[where[0]].split("\n"), where[1])
            if fname == "bare-return":
                f, ln = where
                lines = mut[f].split("\n")
                lines[ln - 1] = lines[ln - 1].rstrip() + " "
                mut[f] = "\n".join(lines)
            n += 1
            nested = where[0] != "main.ms" or mut[where[0]].split("\n")[where[1] - 1].startswith("\t")
            key = "%s|%s|%s" % (s.sid, fname, mut[where[0]].split("\n")[where[1] - 1].strip())
            if nested:
                nt.append(base["main.ms"] + key)
            labels.append("fault=" + fname.split(":")[0])
            sc = make_scenario(mut, where, span=span)
            res, fails, _ = scenario.execute(sc)
            if fails and os.environ.get("MSV_SURVEY"):
                labels.append("FAIL=%s %s | %s" % (s.kind, fname, "; ".join(x.split(":")[0] for x in fails)))
            if fails and failure is None:
                syms = sorted(set(x.split(":")[0] for x in fails[0].split("; ")))
                line_text = mut[where[0]].split("\n")[where[1] - 1].strip()
                f = fail("%s at %s:%d `%s`: %s" % (fname, where[0], where[1], line_text, "; ".join(fails)), "C03:%s:%s:%s" % (s.kind, fname.split(":")[0] + (":" + fname.split(":", 1)[1] if s.kind == "operand-with-byte" else ""), ",".join(syms)),
                         sc, case={"fault": fname, "line": line_text})
                if match_known(f["signature"]):
                    first_known = first_known or f
                else:
                    failure = f
    r = CaseResult(evals=n, nt_keys=nt, labels=labels, sample={"sites": len(sites), "mutants": n, "main.ms": base["main.ms"][len(PRELUDE):][:700]})
    r.failure = failure or first_known
    return r


class _Case(dict):
    pass


def position_matrix():
    """one program per (typed position, expected type) with ONE site; every near-miss value of the family is applied to it"""
    out = []
    for fam, (ty, good, const) in TYPED.items():
        for pos in POSITIONS:
            b = Builder(None, "main.ms")
            b.add("print \"@START\"")
            site = lambda: b.site(fam, good)
            c = "const " if const else ""
            if pos == "decl":
                b.add("%sv1: %s = %s" % (c, ty, site()))
            elif pos == "reassign":
                if const:
                    continue
                b.add("v1: %s = %s" % (ty, good))
                b.add("v1 = %s" % site())
            elif pos == "argument":
                b.add("take = fn(p: %s) -> int {" % ty)
                b.add("\treturn 1")
                b.add("}")
                b.add("print take(%s)" % site())
            elif pos == "return":
                b.add("mk = fn() -> %s {" % ty)
                b.add("\treturn %s" % site())
                b.add("}")
                b.add("%sr1 = mk()" % c)
            elif pos == "return-method":
                b.add("class Mk {")
                b.add("\tfn mk(self) -> %s {" % ty)
                b.add("\t\treturn %s" % site())
                b.add("\t}")
                b.add("}")
                b.add("mo = Mk()")
                b.add("%sr1 = mo.mk()" % c)
            elif pos == "return-closure":
                b.add("mk = fn() -> fn() -> %s {" % ("(%s)" % ty if ty.startswith("fn") else ty))
                b.add("\treturn fn() -> %s {" % ty)
                b.add("\t\treturn %s" % site())
                b.add("\t}")
                b.add("}")
                b.add("inner = mk()")
                b.add("%sr1 = inner()" % c)
            elif pos == "branch-return":
                b.add("mk = fn(flag: bool) -> %s {" % ty)
                b.add("\tif flag {")
                b.add("\t\treturn %s" % good)
                b.add("\t}")
                b.add("\treturn %s" % site())
                b.add("}")
                b.add("%sr1 = mk(true)" % c)
            elif pos == "field-init":
                b.add("class Fd {")
                b.add("\tv: %s" % ty)
                b.add("\tconstructor(self) {")
                b.add("\t\tself.v = %s" % site())
                b.add("\t}")
                b.add("}")
                b.add("fo = Fd()")
            elif pos == "field-assign":
                b.add("class Fd {")
                b.add("\tv: %s" % ty)
                b.add("\tconstructor(self) {")
                b.add("\t\tself.v = %s" % good)
                b.add("\t}")
                b.add("}")
                b.add("fo = Fd()")
                b.add("fo.v = %s" % site())
            elif pos == "element":
                b.add("l1: [%s...] = [%s, %s]" % (ty, good, site()))
            elif pos == "push":
                b.add("l1: [%s...] = [%s]" % (ty, good))
                b.add("l1.push(%s)" % site())
            elif pos == "mapvalue":
                b.add("m1 = map[str, %s] {\"k\": %s}" % (ty, site()))
            b.add("print \"@END\"")
            files = {"main.ms": PRELUDE + "\n".join(b.lines) + "\n"}
            if fam in ("T-twin", "T-ltwin"):
                files = dict(TWIN_FILES, **{"main.ms": TWIN_IMPORTS + files["main.ms"]})
            out.append({"files": files, "sites": list(b.sites), "matrix": "%s|%s" % (pos, fam)})
    return out


# the LAST statement of a function with a declared result type: forms that leave a path to the end of the function without a
# value must be rejected whatever construct hides the path (a loop may run zero times or be left by break / continue; an if
# may lack its else). Controls: the forms in RETURN_TAILS_OK return on every path.
RETURN_TAILS_OK = ["return 1", "if g_int > 0 { return 1 } else { return 2 }", "if g_int > 0 { return 1 } else if g_int > 1 { return 2 } else { return 3 }"]
RETURN_TAILS_BAD = [
    "while g_int > 9 { return 1 }", "while g_int > 9 { if g_int > 3 { continue } return 1 }", "while g_int > 9 { if g_int > 3 { break } return 1 }",
    "while g_int > 9 { if g_int > 3 { return 1 } else { return 2 } }", "while true { if g_int > 3 { break } return 1 }",
    "from 0 to g_int { return 1 }", "from 0 to 0 { return 1 }", "from 0 to g_int, i_ { if i_ > 3 { return 1 } else { return 2 } }",
    "if g_int > 0 { return 1 }", "if g_int > 0 { return 1 } else if g_int > 1 { return 2 }", "if g_int > 0 { return 1 } else { print 2 }",
    "if g_int > 0 { print 1 } else { return 2 }", "if g_int > 0 { while g_int > 9 { return 1 } } else { return 2 }",
    "if g_int > 0 { return 1 } else { while g_int > 9 { return 2 } }", "if g_int > 0 { return 1 } else { from 0 to g_int { return 2 } }",
    "if g_int > 0 { if g_int > 1 { return 1 } } else { return 2 }", "print 1", "g_list.push(1)"]
RETURN_PLACES = ["function", "method", "closure", "callback", "after-statements", "in-else-of-function"]


def return_path_matrix():
    out = []
    for place in RETURN_PLACES:
        for ok in RETURN_TAILS_OK:
            b = Builder(None, "main.ms")
            b.add("print \"@START\"")
            tail = lambda: b.site("tail", ok, "tail", RETURN_TAILS_BAD)
            if place == "function":
                b.add("rp = fn(q: int) -> int {")
                b.add("\t" + tail())
                b.add("}")
                b.add("print rp(1)")
            elif place == "after-statements":
                b.add("rp = fn(q: int) -> int {")
                b.add("\tw0 = q + 1")
                b.add("\tif w0 > 100 {")
                b.add("\t\treturn w0")
                b.add("\t}")
                b.add("\t" + tail())
                b.add("}")
                b.add("print rp(1)")
            elif place == "in-else-of-function":
                b.add("rp = fn(q: int) -> int {")
                b.add("\tif q > 100 {")
                b.add("\t\treturn q")
                b.add("\t} else {")
                b.add("\t\t" + tail())
                b.add("\t}")
                b.add("}")
                b.add("print rp(1)")
            elif place == "method":
                b.add("class Rp {")
                b.add("\tfn rp(self, q: int) -> int {")
                b.add("\t\t" + tail())
                b.add("\t}")
                b.add("}")
                b.add("ro = Rp()")
                b.add("print ro.rp(1)")
            elif place == "closure":
                b.add("mkrp = fn(q: int) -> fn() -> int {")
                b.add("\treturn fn() -> int {")
                b.add("\t\t" + tail())
                b.add("\t}")
                b.add("}")
                b.add("inner = mkrp(1)")
                b.add("print inner()")
            else:
                b.add("mapped = g_list.map(fn(q: int) -> int {")
                b.add("\t" + tail())
                b.add("})")
                b.add("print mapped")
            b.add("print \"@END\"")
            out.append({"files": {"main.ms": PRELUDE + "\n".join(b.lines) + "\n"}, "sites": list(b.sites), "matrix": "return-path|%s|%s" % (place, ok)})
    return out


# compound assignments: `t OP= v` must be rejected when `t OP v` is of another type than t - whatever t is spelled as (a variable,
# a captured variable, a list element, a nested element, a map value, a field from outside and through self)
OA_TYPES = {"T-oa-int": ("int", "1"), "T-oa-byte": ("byte", "0b1"), "T-oa-bigint": ("bigint", "B1"), "T-oa-float": ("float", "1.5")}
OA_TARGETS = ["variable", "captured", "element", "nested-element", "map-value", "field", "self-field", "field-of-element"]


def opassign_matrix():
    out = []
    for fam, (ty, good) in OA_TYPES.items():
        for target in OA_TARGETS:
            for op in ("+=", "-=", "*=", "/=", "%="):
                b = Builder(None, "main.ms")
                b.add("print \"@START\"")
                site = lambda: b.site(fam, good, "value", op)
                if target == "variable":
                    b.add("v1: %s = %s" % (ty, good))
                    b.add("v1 %s %s" % (op, site()))
                elif target == "captured":
                    b.add("v1: %s = %s" % (ty, good))
                    b.add("bump = fn() {")
                    b.add("\tv1 %s %s" % (op, site()))
                    b.add("}")
                    b.add("bump()")
                elif target == "element":
                    b.add("l1: [%s...] = [%s, %s]" % (ty, good, good))
                    b.add("l1[0] %s %s" % (op, site()))
                elif target == "nested-element":
                    b.add("n1: [[%s...]...] = [[%s], [%s]]" % (ty, good, good))
                    b.add("n1[1][0] %s %s" % (op, site()))
                elif target == "map-value":
                    b.add("m1 = map[str, %s] {\"k\": %s}" % (ty, good))
                    b.add("m1[\"k\"] %s %s" % (op, site()))
                else:
                    b.add("class Fd {")
                    b.add("\tv: %s" % ty)
                    b.add("\tconstructor(self) {")
                    b.add("\t\tself.v = %s" % good)
                    b.add("\t}")
                    if target == "self-field":
                        b.add("\tfn bump(self) {")
                        b.add("\t\tself.v %s %s" % (op, site()))
                        b.add("\t}")
                    b.add("}")
                    b.add("fo = Fd()")
                    if target == "field":
                        b.add("fo.v %s %s" % (op, site()))
                    elif target == "self-field":
                        b.add("fo.bump()")
                    else:
                        b.add("lf: [Fd...] = [fo]")
                        b.add("if true {")          # a statement that starts with `(` would continue the previous line
                        b.add("}")
                        b.add("(lf[0]).v %s %s" % (op, site()))
                b.add("print \"@END\"")
                out.append({"files": {"main.ms": PRELUDE + "\n".join(b.lines) + "\n"}, "sites": list(b.sites), "matrix": "opassign|%s|%s|%s" % (target, ty, op)})
    return out


# a from loop that REUSES an existing variable as its counter assigns `start + k * step` to it: a step that promotes the start
# to another kind than the variable's must be rejected like any other assignment of that kind
COUNTER_TYPES = {"T-ctr-int": ("int", "0", "3", "1"), "T-ctr-byte": ("byte", "0b0", "0b11", "0b1"), "T-ctr-bigint": ("bigint", "B0", "B3", "B1"), "T-ctr-float": ("float", "0.5", "3.5", "0.5")}


def counter_matrix():
    out = []
    for fam, (ty, start, end, step) in COUNTER_TYPES.items():
        for place in ("module", "function", "method", "after-use"):
            for bound in ("to", "through"):
                b = Builder(None, "main.ms")
                b.add("print \"@START\"")
                loop = lambda ind: [ind + "from %s %s %s step %s, v1 {" % (start, bound, end, b.site(fam, step)), ind + "\tprint v1", ind + "}"]
                if place in ("module", "after-use"):
                    b.add("v1: %s = %s" % (ty, start))
                    if place == "after-use":
                        b.add("w1: %s = v1" % ty)
                    for l in loop(""):
                        b.add(l)
                    b.add("k1: %s = v1" % ty)
                elif place == "function":
                    b.add("cf = fn() -> %s {" % ty)
                    b.add("\tv1: %s = %s" % (ty, start))
                    for l in loop("\t"):
                        b.add(l)
                    b.add("\treturn v1")
                    b.add("}")
                    b.add("print cf()")
                else:
                    b.add("class Cm {")
                    b.add("\tfn run(self) -> %s {" % ty)
                    b.add("\t\tv1: %s = %s" % (ty, start))
                    for l in loop("\t\t"):
                        b.add(l)
                    b.add("\t\treturn v1")
                    b.add("\t}")
                    b.add("}")
                    b.add("cm = Cm()")
                    b.add("print cm.run()")
                b.add("print \"@END\"")
                out.append({"files": {"main.ms": PRELUDE + "\n".join(b.lines) + "\n"}, "sites": list(b.sites), "matrix": "counter|%s|%s|%s" % (place, ty, bound)})
    return out


def or_fallback_matrix():
    """the fallback of `(x) or y` must be of the type UNDER x's optional, wherever x lives: a module variable, a variable captured
    by a function / by a closure inside a function, a parameter, a field, an element"""
    out = []
    places = {"module": ["r0: int = (g_oint) or {S}"],
              "captured-by-function": ["rf = fn() -> int {", "\treturn (g_oint) or {S}", "}", "print rf()"],
              "captured-by-closure": ["mk = fn() -> fn() -> int {", "\tloc: int? = nil", "\treturn fn() -> int {", "\t\treturn (loc) or {S}", "\t}", "}", "rc = mk()", "print rc()"],
              "parameter": ["rp = fn(p: int?) -> int {", "\treturn (p) or {S}", "}", "print rp(nil)"],
              "element": ["lo1: [int?...] = [nil]", "r1: int = (lo1[0]) or {S}"],
              "method-field": ["class Of {", "\tv: int?", "\tconstructor(self) {", "\t\tself.v = nil", "\t}", "\tfn get_v(self) -> int {", "\t\treturn (self.v) or {S}", "\t}", "}", "of1 = Of()", "print of1.get_v()"]}
    for pn, lines in places.items():
        b = Builder(None, "main.ms")
        b.add("print \"@START\"")
        for l in lines:
            b.add(l.replace("{S}", b.site("T-orfb", "7")) if "{S}" in l else l)
        b.add("print \"@END\"")
        out.append({"files": {"main.ms": PRELUDE + "\n".join(b.lines) + "\n"}, "sites": list(b.sites), "matrix": "or-fallback|" + pn})
    return out


def scope_matrix():
    """a name that IS declared - but in a scope that does not reach the place of use (another branch of the same if, a loop body
    that has ended, a function's locals and parameters seen from outside, an inner block) must be diagnosed like an unknown name.
    One program per using place; the site's faults are all the names that are out of scope there."""
    out = []

    def prog(tag, lines, hidden):
        b = Builder(None, "main.ms")
        b.add("print \"@START\"")
        b.add("vis = 1")
        for l in lines:
            if "{USE}" in l:
                l = l.replace("{USE}", b.site("scope", "vis", "scope", hidden))
            b.add(l)
        b.add("print \"@END\"")
        out.append({"files": {"main.ms": PRELUDE + "\n".join(b.lines) + "\n"}, "sites": list(b.sites), "matrix": "scope|" + tag})
    IF = ["if vis == 1 {", "\tin_then = 2", "\tif vis == 1 {", "\t\tin_nested = 3", "\t}", "{T}", "} else if vis == 2 {", "\tin_elif = 4", "{EI}", "} else {", "\tin_else = 5", "{E}", "}", "{A}"]

    def iff(**kw):
        sub = {"{T}": kw.get("T", "\tprint vis"), "{EI}": kw.get("EI", "\tprint vis"), "{E}": kw.get("E", "\tprint vis"), "{A}": kw.get("A", "print vis")}
        return [sub.get(l, l) for l in IF]
    prog("use-in-then", iff(T="\tprint {USE}"), ["in_nested", "in_elif", "in_else"])
    prog("use-in-else-if-body", iff(EI="\tprint {USE}"), ["in_then", "in_nested", "in_else"])
    prog("use-in-else", iff(E="\tprint {USE}"), ["in_then", "in_nested", "in_elif"])
    prog("use-after-if", iff(A="print {USE}"), ["in_then", "in_nested", "in_elif", "in_else"])
    prog("use-in-else-if-condition", ["if vis == 2 {", "\tin_then = 2", "} else if {USE} == 1 {", "\tprint vis", "}"], ["in_then"])
    prog("use-in-else-assignment", ["if vis == 2 {", "\tin_then = 2", "} else {", "\tcopy = {USE} + 1", "\tprint copy", "}"], ["in_then"])
    prog("use-after-while", ["n0 = 0", "while n0 < 1 {", "\tn0 = n0 + 1", "\tin_while = 2", "}", "print {USE}"], ["in_while"])
    prog("use-after-from", ["from 0 to 2, counter {", "\tin_from = 2", "}", "print {USE}"], ["in_from", "counter"])
    prog("use-outside-function", ["f0 = fn(param: int) -> int {", "\tlocal = param + 1", "\tinner = fn() -> int {", "\t\tdeep = 1", "\t\treturn deep", "\t}", "\treturn local + inner()", "}", "print f0(1)", "print {USE}"],
         ["param", "local", "inner", "deep"])
    prog("use-in-sibling-function", ["f0 = fn(param: int) -> int {", "\tlocal = param + 1", "\treturn local", "}", "f1 = fn() -> int {", "\treturn {USE}", "}", "print f0(1) + f1()"], ["param", "local"])
    prog("use-in-closure-of-outer-function", ["f0 = fn() -> int {", "\tif vis == 1 {", "\t\tin_block = 2", "\t}", "\tg0 = fn() -> int {", "\t\treturn {USE}", "\t}", "\treturn g0()", "}", "print f0()"], ["in_block"])
    prog("use-outside-class", ["class Sc {", "\tfield: int", "\tconstructor(self, cp: int) {", "\t\tself.field = cp", "\t}", "\tfn meth(self, mp: int) -> int {", "\t\tml = mp", "\t\treturn ml", "\t}", "}", "so = Sc(1)", "print so.meth(2)", "print {USE}"],
         ["field", "cp", "mp", "ml", "meth"])
    prog("use-in-method-of-other-method", ["class Sc {", "\tfn one(self, mp: int) -> int {", "\t\tml = mp", "\t\treturn ml", "\t}", "\tfn two(self) -> int {", "\t\treturn {USE}", "\t}", "}", "so = Sc()", "print so.one(2) + so.two()"], ["mp", "ml"])
    prog("bare-method-name-in-method", ["class Sc {", "\tfn value(self) -> int {", "\t\treturn 3", "\t}", "\tfn three(self) -> int {", "\t\treturn {USE}", "\t}", "}", "so = Sc()", "print so.three()"], ["value()", "value", "three()"])
    prog("bare-method-name-in-closure-of-method", ["class Sc {", "\tfn value(self) -> int {", "\t\treturn 3", "\t}", "\tfn three(self) -> int {", "\t\tq = fn() -> int {", "\t\t\treturn {USE}", "\t\t}", "\t\treturn q()", "\t}", "}", "so = Sc()", "print so.three()"], ["value()"])
    prog("use-before-declaration", ["print {USE}", "later = 2", "print later"], ["later"])

    # a variable of an ENCLOSING scope declared again, with an annotation of ANOTHER type, inside a nested block (the site is the
    # whole statement; the good form re-declares it with its own type)
    def retype(tag, lines):
        b = Builder(None, "main.ms")
        b.add("print \"@START\"")
        b.add("vis = 1")
        b.add("count = 1")
        for l in lines:
            if "{DECL}" in l:
                l = l.replace("{DECL}", b.site("scope", "count: int = 2", "scope", ["count: str = \"one\"", "count: bool = true", "count: float = 1.5", "count: [int...] = [1]", "count: int? = nil"]))
            b.add(l)
        b.add("print count + 1")
        b.add("print \"@END\"")
        out.append({"files": {"main.ms": PRELUDE + "\n".join(b.lines) + "\n"}, "sites": list(b.sites), "matrix": "scope|retype-in-" + tag})
    retype("if", ["if vis == 1 {", "\t{DECL}", "}"])
    retype("else", ["if vis == 2 {", "\tprint vis", "} else {", "\t{DECL}", "}"])
    retype("else-if", ["if vis == 2 {", "\tprint vis", "} else if vis == 1 {", "\t{DECL}", "}"])
    retype("while", ["n0 = 0", "while n0 < 1 {", "\tn0 = n0 + 1", "\t{DECL}", "}"])
    retype("from", ["from 0 to 1 {", "\t{DECL}", "}"])
    retype("nested-two-deep", ["if vis == 1 {", "\tfrom 0 to 1 {", "\t\t{DECL}", "\t}", "}"])
    retype("same-scope", ["{DECL}"])
    return out


def enumerated(tier, seed):
    return position_matrix() + scope_matrix() + opassign_matrix() + return_path_matrix() + counter_matrix() + or_fallback_matrix()


@st.composite
def programs(draw):
    g = G(draw)
    files, sites = gen_program(g)
    return {"files": files, "sites": sites}


def strategy(tier):
    return programs()


def n_random(tier):
    return 320 if tier == "quick" else 5000
