"""C12 — optionals: nil test, `get`, `or`, `?=`."""
import os, re
from hypothesis import strategies as st
from ..engine import CaseResult, fail
from .. import scenario, ms, model
from ..gen import G, I

ID = "C12"
LEVEL = "exploration"
RULE = ("cases are programs over optional int / str / list / object values held in variables, parameters, function results, "
        "built-in results (wrapped present values), list elements and class fields, built from a random sequence of uses of `== nil`, `get`, `(x) or y` (fallback = logging call, so "
        "laziness is observable), `get` applied directly to a variable / list element / object field / call result that is nil or present, `a ?= e` in statement / if / while position, at module level, in nested blocks and in "
        "functions, each use drawn with a nil or a present operand; oracle = reference interpreter (stdout exactly; for "
        "`get nil`: non-zero exit, message `unwrap of nil` with file:line:col inside that get expression). Non-trivial = the "
        "program evaluates the same construct kind on both a nil and a present value; distinct by program text")
ASSUMPTIONS = ["the position reported for a failing `get` may be any column inside the get expression (the implementation reports the operand)"]

S = lambda s: ("lit", "str", s)
V = lambda n: ("var", n)
B = lambda b: ("lit", "bool", b)
OI, OS = ("opt", "int"), ("opt", "str")

PRELUDE = [
    # optional-producing logger and fallback loggers
    ("decl", "mk", None, ("fn", [("k", "int"), ("p", "bool")], OI,
        [("print", ("bin", "+", S("mk"), V("k"))), ("if", V("p"), [("return", V("k"))], None), ("return", ("nil",))]), ()),
    ("decl", "mks", None, ("fn", [("k", "int"), ("p", "bool")], OS,
        [("print", ("bin", "+", S("mks"), V("k"))), ("if", V("p"), [("return", ("bin", "+", S("s"), V("k")))], None), ("return", ("nil",))]), ()),
    # an optional produced by a built-in (a genuinely wrapped present value at run time)
    ("decl", "mkp", None, ("fn", [("k", "int"), ("p", "bool")], OI,
        [("print", ("bin", "+", S("mkp"), V("k"))), ("if", V("p"), [("return", ("mcall", ("bin", "+", S(""), V("k")), "parse_int", []))], None),
         ("return", ("mcall", S("zz"), "parse_int", []))]), ()),
    # optionals of list and class type, and a class with an optional field
    ("class", "KO", [("o", ("opt", "int"))], [("o", ("opt", "int"))], [("setf", ("var", "self"), "o", V("o"))],
     [("get_o", [], ("opt", "int"), [("return", ("field", ("var", "self"), "o"))]),
      ("set_o", [("v", ("opt", "int"))], None, [("setf", ("var", "self"), "o", V("v"))])]),
    ("decl", "mkl", None, ("fn", [("k", "int"), ("p", "bool")], ("opt", ("list", "int")),
        [("print", ("bin", "+", S("mkl"), V("k"))), ("if", V("p"), [("decl", "res", ("list", "int"), ("list", [V("k"), V("k")]), ()), ("return", V("res"))], None), ("return", ("nil",))]), ()),
    ("decl", "mko", None, ("fn", [("k", "int"), ("p", "bool")], ("opt", ("cls", "KO")),
        [("print", ("bin", "+", S("mko"), V("k"))), ("if", V("p"), [("return", ("new", "KO", [V("k")]))], None), ("return", ("nil",))]), ()),
    ("decl", "fbl", None, ("fn", [("k", "int")], ("list", "int"), [("print", ("bin", "+", S("fbl"), V("k"))), ("decl", "res", ("list", "int"), ("list", [V("k")]), ()), ("return", V("res"))]), ()),
    ("decl", "fb", None, ("fn", [("k", "int")], "int", [("print", ("bin", "+", S("fb"), V("k"))), ("return", V("k"))]), ()),
    ("decl", "fbs", None, ("fn", [("k", "int")], "str", [("print", ("bin", "+", S("fbs"), V("k"))), ("return", ("bin", "+", S("f"), V("k")))]), ()),
]


class Ctx:
    def __init__(self, g):
        self.g = g
        self.k = 0
        self.vars = {}        # name -> "int" | "str" (base type of an optional variable) visible here
        self.seen = set()     # (construct, nil|present) pairs generated (static view)
        self.has_get_fail = False

    def key(self):
        self.k += 1
        return self.k


def opt_expr(c, base, want=None):
    """an expression of type base? ; returns (expr, staticness: 'nil'|'present'|'unknown')"""
    g = c.g
    names = [n for n, b in c.vars.items() if b == base]
    ch = g.weighted([(4 if names else 0, "var"), (3, "call"), (2 if base == "int" else 0, "elem")])
    if ch == "var":
        return V(g.choice(names)), "unknown"
    if ch == "call":
        p = g.chance(50)
        fn = "mks" if base == "str" else ("mkp" if g.chance(40) else "mk")
        return ("call", V(fn), [I(c.key()), B(p)]), ("present" if p else "nil")
    i = g.int(0, 2)
    return ("index", V("lo"), I(i)), ("present" if i != 1 else "nil")


def show(c, e):
    """print statement for a value; in a third of the cases the line holds text outside ASCII in front of the value, so that a
    position reported for something inside `e` is a CHARACTER column only if characters, not bytes, were counted"""
    if c.g.chance(35):
        c.g.label("non-ascii-text-in-front-on-the-same-line")
        return ("print", ("bin", "+", S(c.g.choice(["d\u00e9j\u00e0 ", "\u65e5\u672c\u8a9e\uff1a", "\U0001f600\U0001f600 ", "\u00e9"])), e))
    return ("print", e)


def fallback(c, base):
    return ("call", V("fb" if base == "int" else "fbs"), [I(c.key())])


def gen_stmts(c, n, depth, in_loop=False):
    g = c.g
    out = []
    for _ in range(n):
        base = g.weighted([(3, "int"), (2, "str")])
        names = [x for x, b in c.vars.items() if b == base]
        ch = g.weighted([(3, "isnil"), (2, "get"), (4, "or"), (2, "getor"), (3 if names else 0, "unwrap_stmt"),
                         (3 if names else 0, "unwrap_if"), (1 if names and depth < 2 else 0, "unwrap_while"),
                         (3 if names else 0, "assign"), (2, "eq"), (3, "cmp2"), (2 if depth < 2 else 0, "block"), (2, "decl"),
                         (2, "listopt"), (2, "objopt"), (3, "field"), (3, "capturedor")])
        if ch == "capturedor":
            # the optional is a variable of an ENCLOSING scope, read inside a function literal (one or two functions deep): under
            # `or`, `== nil`, `get` (guarded) and `?=`, while it is nil and while it is present, before and after the owner rewrites it
            present = g.chance(50)
            cv = "cv%d" % c.key()
            out.append(("decl", cv, ("opt", base), (I(g.int(1, 9)) if base == "int" else S("cv")) if present else ("nil",), ()))
            use = g.choice(["or", "or", "or-nested-fn", "isnil", "or-then-or"])
            g.label("captured-optional:%s:%s" % (use, "present" if present else "nil"))
            c.seen.add(("captured-or", "present" if present else "nil"))
            fn = "cf%d" % c.key()
            if use == "isnil":
                body, rt = [("return", ("bin", "==", V(cv), ("nil",)))], "bool"
            elif use == "or-then-or":
                body, rt = [("return", ("or", V(cv), ("or", V(cv), fallback(c, base))))], base
            else:
                body, rt = [("return", ("or", V(cv), fallback(c, base)))], base
            lit = ("fn", [], rt, body)
            if use == "or-nested-fn":
                lit = ("fn", [], rt, [("decl", "inner", None, ("fn", [], rt, body), ()), ("return", ("call", V("inner"), []))])
            out.append(("decl", fn, None, lit, ()))
            out.append(("print", ("call", V(fn), [])))
            # the owner flips the variable: the closure sees the new state
            out.append(("decl", cv, ("opt", base), ("nil",) if present else (I(g.int(1, 9)) if base == "int" else S("cw")), ()))
            out.append(("print", ("call", V(fn), [])))
            c.seen.add(("captured-or", "nil" if present else "present"))
            continue
        if ch == "isnil":
            e, s = opt_expr(c, base)
            c.seen.add(("isnil", s))
            out.append(("print", ("bin", g.choice(["==", "!="]), e, ("nil",))))
        elif ch == "get":
            e, s = opt_expr(c, base)
            c.seen.add(("get", s))
            if s != "present" and not g.chance(25):
                # mostly guard gets so that programs keep running; unguarded ones may fail (predicted by the model)
                out.append(("if", ("bin", "!=", e, ("nil",)), [show(c, ("get", e))], [("print", S("is-nil"))]) if e[0] == "var" else ("print", ("bin", "==", e, ("nil",))))
            else:
                out.append(show(c, ("get", e)))
        elif ch == "or" and g.chance(35):
            # a LITERAL on the left of `or` - nil itself or a present value - with a fallback that is a call (which must run
            # exactly when the left side is nil), a variable or another `or`; as a printed value, an initialiser (typed and
            # untyped) and a list element
            left_nil = g.chance(65)
            lit = ("nil",) if left_nil else (I(g.int(0, 9)) if base == "int" else S("lit"))
            c.seen.add(("or", "nil" if left_nil else "present"))
            g.label("or-with-literal-left:" + ("nil" if left_nil else "present"))
            fk = g.choice(["call", "var", "nested-or"] + (["optional", "optional"] if left_nil else []))
            if fk == "optional":
                # the fallback of a nil literal may itself be optional (variable, call result, list element, field): the whole `or`
                # is then an optional whose value is the fallback's - used under `get`, `== nil`, a second `or`, a typed declaration
                oe, s2 = opt_expr(c, base)
                if base == "int" and g.chance(25):
                    pres = g.chance(50)
                    fo = "fq%d" % c.key()
                    out.append(("decl", fo, None, ("new", "KO", [I(g.int(0, 9)) if pres else ("nil",)]), ()))
                    oe, s2 = ("field", V(fo), "o"), ("present" if pres else "nil")
                e = ("or", ("nil",), oe)
                use = g.choice(["print", "isnil", "get", "get", "or-again", "typed-decl", "get-decl"])
                g.label("or-with-nil-left-and-optional-fallback:%s:%s" % (use, s2))
                c.seen.add(("or-optional-fallback", s2))
                dn = "oq%d" % c.key()
                if use == "print":
                    out.append(("print", e))
                elif use == "isnil":
                    out.append(("print", ("bin", g.choice(["==", "!="]), e, ("nil",))))
                elif use == "or-again":
                    out.append(("print", ("or", e, fallback(c, base))))
                elif use == "typed-decl":
                    out += [("decl", dn, ("opt", base), e, ()), ("print", ("bin", "==", V(dn), ("nil",))), ("print", ("or", V(dn), fallback(c, base)))]
                elif s2 == "present" or g.chance(30 if s2 == "nil" else 60):
                    # `get` directly on the `or`: stops the program exactly when the fallback is nil
                    if s2 != "present":
                        c.has_get_fail = True
                    if use == "get":
                        out.append(show(c, ("get", e)))
                    else:
                        out += [("decl", dn, base, ("get", e), ()), ("print", V(dn)), ("print", ("bin", "==", V(dn), ("nil",)))]
                else:
                    out.append(("print", ("bin", "==", e, ("nil",))))
                continue
            if fk == "call":
                fb_ = fallback(c, base)
            elif fk == "var":
                pv = "pv%d" % c.key()
                out.append(("decl", pv, None, I(g.int(10, 19)) if base == "int" else S("pv"), ()))
                fb_ = V(pv)
            else:
                fb_ = ("or", opt_expr(c, base)[0], fallback(c, base))
            e = ("or", lit, fb_)
            pos = g.choice(["print", "typed-decl", "untyped-decl", "list-element"])
            dn = "od%d" % c.key()
            if pos == "print":
                out.append(("print", e))
            elif pos == "typed-decl":
                out += [("decl", dn, base, e, ()), ("print", V(dn))]
            elif pos == "untyped-decl":
                out += [("decl", dn, None, e, ()), ("print", V(dn))]
            else:
                out += [("decl", dn, ("list", base), ("list", [e, fallback(c, base)]), ()), ("print", V(dn))]
        elif ch == "or":
            e, s = opt_expr(c, base)
            c.seen.add(("or", s))
            out.append(("print", ("or", e, fallback(c, base))))
        elif ch == "getor":
            e, s = opt_expr(c, base)
            c.seen.add(("or", s))
            out.append(show(c, ("get", ("or", e, fallback(c, base)))))
        elif ch == "unwrap_stmt":
            a = g.choice(names)
            e, s = opt_expr(c, base)
            c.seen.add(("unwrap", s))
            if g.chance(50):
                out.append(("expr_unwrap", a, e))
            else:
                out.append(("print", ("unwrap", a, e)))
            out.append(("print", ("bin", "==", V(a), ("nil",))))
            out.append(("print", ("or", V(a), fallback(c, base))))
        elif ch == "unwrap_if":
            a = g.choice(names)
            e, s = opt_expr(c, base)
            c.seen.add(("unwrap-if", s))
            saved = dict(c.vars)
            inner = gen_stmts(c, g.int(0, 1), depth + 1)
            c.vars = saved
            out.append(("if", ("unwrap", a, e), [("print", ("bin", "+", S("present:"), ("get", V(a))))] + inner,
                        [("print", S("absent"))]))
            out.append(("print", ("bin", "==", V(a), ("nil",))))
        elif ch == "unwrap_while":
            a = g.choice([x for x, b in c.vars.items() if b == "int"] or names)
            if c.vars[a] != "int":
                continue
            cnt = "cnt%d" % c.key()
            nxt = "nxt%d" % c.key()
            lim = g.int(0, 3)
            out.append(("decl", cnt, None, I(0), ()))
            out.append(("decl", nxt, None, ("fn", [], OI, [("decl", cnt, None, ("bin", "+", V(cnt), I(1)), ("modify",)),
                        ("if", ("bin", ">", V(cnt), I(lim)), [("return", ("nil",))], None), ("return", ("bin", "*", V(cnt), I(10)))]), ()))
            c.seen.add(("unwrap-while", "present" if lim > 0 else "nil"))
            c.seen.add(("unwrap-while", "nil"))
            out.append(("while", ("unwrap", a, ("call", V(nxt), [])), [("print", ("bin", "+", S("got:"), ("get", V(a))))]))
            out.append(("print", ("bin", "==", V(a), ("nil",))))
        elif ch == "assign":
            a = g.choice(names)
            k = g.weighted([(2, "nil"), (2, "val"), (2, "expr")])
            if k == "nil":
                out.append(("decl", a, ("opt", base), ("nil",), ()))   # a bare `a = nil` cannot be typed by the compiler
            elif k == "val":
                # typed form: an un-annotated `a = 5` narrows the static type of `a` to the plain type
                out.append(("decl", a, ("opt", base), I(g.int(-5, 9)) if base == "int" else S(g.choice(["", "p", "qq"])), ()))
            else:
                out.append(("decl", a, None, opt_expr(c, base)[0], ()))
        elif ch == "cmp2":
            # two optionals (or nil itself) compared in EITHER order: a variable, a call result, a list element and nil on the
            # left as well as on the right, under == and !=, as a printed value and as a condition
            def side():
                if g.chance(25):
                    return ("nil",), "nil"
                if base == "int" and g.chance(45):
                    i = g.int(0, 2)
                    return ("index", V("lo"), I(i)), ("present" if i != 1 else "nil")
                return opt_expr(c, base)
            (l_, sl), (r_, sr) = side(), side()
            if l_ == ("nil",) and r_ == ("nil",):
                r_, sr = opt_expr(c, base)
            c.seen.add(("cmp2", sl if sl == sr else "present"))
            c.seen.add(("cmp2", sr))
            g.label("compare:%s-with-%s" % (l_[0], r_[0]))
            cmp_ = ("bin", g.choice(["==", "!="]), l_, r_)
            out.append(("print", cmp_) if g.chance(60) else ("if", cmp_, [("print", S("same"))], [("print", S("differ"))]))
        elif ch == "eq":
            e, s = opt_expr(c, base)
            c.seen.add(("eq", s))
            plain = I(g.int(0, 3)) if base == "int" else S(g.choice(["s1", "s2", ""]))
            out.append(("print", ("bin", "==", e, plain) if g.chance(50) else ("bin", "==", plain, e)))
        elif ch == "listopt":
            g.label("optional-list")
            p = g.chance(50)
            e = ("call", V("mkl"), [I(c.key()), B(p)])
            c.seen.add(("list-" + "x", "present" if p else "nil"))
            k = g.choice(["isnil", "or", "unwrap", "get"])
            if k == "isnil":
                out.append(("print", ("bin", "==", e, ("nil",))))
            elif k == "or":
                out.append(("print", ("or", e, ("call", V("fbl"), [I(c.key())]))))
            elif k == "unwrap":
                lv = "lv%d" % c.key()
                out.append(("decl", lv, ("opt", ("list", "int")), ("nil",), ()))
                out.append(("if", ("unwrap", lv, e), [("print", ("mcall", ("get", V(lv)), "len", []))], [("print", S("no-list"))]))
                out.append(("print", ("bin", "==", V(lv), ("nil",))))
            else:
                lv = "lg%d" % c.key()
                out.append(("decl", lv, ("opt", ("list", "int")), e, ()))
                out.append(("if", ("bin", "!=", V(lv), ("nil",)), [("print", ("get", V(lv)))], [("print", S("nil-list"))]))
        elif ch == "objopt":
            g.label("optional-object")
            p = g.chance(50)
            e = ("call", V("mko"), [I(c.key()), B(p)])
            c.seen.add(("obj-x", "present" if p else "nil"))
            ov = "ko%d" % c.key()
            out.append(("decl", ov, ("opt", ("cls", "KO")), ("nil",), ()))
            k = g.choice(["unwrap", "isnil", "get"])
            if k == "unwrap":
                out.append(("if", ("unwrap", ov, e), [("print", ("or", ("mcall", ("get", V(ov)), "get_o", []), fallback(c, "int")))], [("print", S("no-object"))]))
            elif k == "isnil":
                out.append(("decl", ov, None, e, ()))
                out.append(("print", ("bin", "==", V(ov), ("nil",))))
            else:
                out.append(("decl", ov, None, e, ()))
                out.append(("decl", "tmp%d" % c.key(), None, ("get", V(ov)), ()) if p or g.chance(20) else ("print", ("bin", "!=", V(ov), ("nil",))))
        elif ch == "field":
            g.label("optional-field")
            present = g.chance(50)
            fv = "fo%d" % c.key()
            out.append(("decl", fv, None, ("new", "KO", [I(g.int(0, 9)) if present else ("nil",)]), ()))
            c.seen.add(("field", "present" if present else "nil"))
            for _ in range(g.int(1, 3)):
                k = g.choice(["isnil", "or", "get", "set", "method", "eq"])
                fld = ("field", V(fv), "o")
                if k == "isnil":
                    out.append(("print", ("bin", "==", fld, ("nil",))))
                elif k == "or":
                    out.append(("print", ("or", fld, fallback(c, "int"))))
                elif k == "get":
                    out.append(("if", ("bin", "!=", fld, ("nil",)), [show(c, ("get", fld))], [("print", S("nil-field"))]))
                elif k == "set":
                    out.append(("expr", ("mcall", V(fv), "set_o", [I(g.int(0, 9)) if g.chance(50) else ("nil",)])))
                elif k == "method":
                    out.append(("print", ("or", ("mcall", V(fv), "get_o", []), fallback(c, "int"))))
                else:
                    out.append(("print", ("bin", "==", fld, I(g.int(0, 9)))))
        elif ch == "block":
            kind = g.weighted([(3, "if"), (2, "from"), (1, "else")])
            saved = dict(c.vars)
            body = gen_stmts(c, g.int(1, 3), depth + 1)
            c.vars = saved
            if kind == "if":
                out.append(("if", B(True), body, None))
            elif kind == "else":
                out.append(("if", B(False), [("print", S("never"))], body))
            else:
                out.append(("from", I(0), I(g.int(1, 2)), False, None, None, body))
            c.g.label("nested-block")
        else:
            name = "o%d" % c.key()
            k = g.weighted([(2, "nil"), (2, "val"), (1, "expr")])
            init = ("nil",) if k == "nil" else ((I(g.int(-5, 9)) if base == "int" else S("v")) if k == "val" else opt_expr(c, base)[0])
            out.append(("decl", name, ("opt", base), init, ()))
            c.vars[name] = base
    return out


def lower(stmts):
    """('expr_unwrap', a, e) is the statement form `a ?= e`"""
    out = []
    for s in stmts:
        if s[0] == "expr_unwrap":
            out.append(("expr", ("unwrap_stmt", s[1], s[2])))
        elif s[0] == "if":
            e = s[3]
            out.append(("if", s[1], lower(s[2]), lower(e) if isinstance(e, list) else e))
        elif s[0] == "while":
            out.append(("while", s[1], lower(s[2])))
        elif s[0] == "from":
            out.append(s[:6] + (lower(s[6]),))
        elif s[0] == "decl" and s[3][0] == "fn":
            f = s[3]
            out.append(("decl", s[1], s[2], ("fn", f[1], f[2], lower(f[3])), s[4]))
        else:
            out.append(s)
    return out


@st.composite
def cases(draw):
    g = G(draw)
    c = Ctx(g)
    stmts = [("decl", "lo", ("list", OI), ("list", [I(4), ("nil",), I(6)]), ())]
    in_fn = g.chance(30)
    pre = []
    for nm, base in (("oa", "int"), ("ob", "int"), ("sa", "str")):
        k = g.weighted([(1, "nil"), (1, "val")])
        pre.append(("decl", nm, ("opt", base), ("nil",) if k == "nil" else (I(g.int(-5, 9)) if base == "int" else S("init")), ()))
        c.vars[nm] = base
    body = pre + gen_stmts(c, g.int(3, 10), 0)
    if g.chance(30):
        # end the program with a `get` applied DIRECTLY to each kind of operand, nil or present: a nil operand must stop
        # the program at this statement with the position of this get (nothing after it may print)
        kind = g.choice(["var", "elem", "field", "call", "elem-in-expr", "field-of-element"])
        nil = g.chance(60)
        g.label("final-get:%s:%s" % (kind, "nil" if nil else "present"))
        c.seen.add(("get", "nil" if nil else "present"))
        if kind == "var":
            body.append(("decl", "fg_v", OI, ("nil",) if nil else I(7), ()))
            body.append(("print", ("get", V("fg_v"))))
        elif kind == "elem":
            body.append(("print", ("get", ("index", V("lo"), I(1 if nil else 2)))))
        elif kind == "elem-in-expr":
            body.append(("print", ("bin", "+", I(1), ("get", ("index", V("lo"), I(1 if nil else 0))))))
        elif kind == "field":
            body.append(("decl", "fg_o", None, ("new", "KO", [("nil",) if nil else I(5)]), ()))
            body.append(("print", ("get", ("field", V("fg_o"), "o"))))
        elif kind == "field-of-element":
            body.append(("decl", "fg_l", None, ("list", [("new", "KO", [("nil",) if nil else I(5)])]), ()))
            body.append(("decl", "fg_e", None, ("index", V("fg_l"), I(0)), ()))
            body.append(("print", ("get", ("field", V("fg_e"), "o"))))
        else:
            body.append(("print", ("get", ("call", V("mk"), [I(c.key()), B(not nil)]))))
        body.append(("print", S("after-final-get")))
    tail = []
    if g.chance(35):
        # the fallback of `or` / the source of `?=` is a variable of an ENCLOSING function that the closure mentions nowhere
        # else: it must have been captured, whether the fallback is ever evaluated or not
        form = g.choice(["or-local", "or-param", "or-expr", "or-in-get", "unwrap-from-captured"])
        g.label("fallback-only-capture:" + form)
        k = g.int(1, 9)
        if form == "or-local":
            inner = [("return", ("or", V("p"), V("hidden")))]
        elif form == "or-param":
            inner = [("return", ("or", V("p"), V("dflt")))]
        elif form == "or-expr":
            inner = [("return", ("or", V("p"), ("bin", "+", V("hidden"), V("dflt"))))]
        elif form == "or-in-get":
            inner = [("decl", "q", OI, ("or", V("p"), V("hidden")), ()), ("return", ("get", V("q")))]
        else:
            inner = [("decl", "q", OI, ("nil",), ()), ("if", ("unwrap", "q", V("ohidden")), [("return", ("bin", "+", ("or", V("p"), I(0)), ("get", V("q"))))], None), ("return", ("or", V("p"), I(0 - 1)))]
        tail.append(("decl", "mkor", None, ("fn", [("dflt", "int")], ("fn", [OI], "int"),
                     [("decl", "hidden", None, ("bin", "+", V("dflt"), I(100)), ()), ("decl", "ohidden", OI, ("bin", "+", V("dflt"), I(200)), ()),
                      ("return", ("fn", [("p", OI)], "int", inner))]), ()))
        tail.append(("decl", "orf", None, ("call", V("mkor"), [I(k)]), ()))
        tail.append(("decl", "hidden", None, I(0 - 50), ()))          # a same-named variable where the closure is CALLED must not be found
        tail.append(("decl", "dflt", None, I(0 - 60), ()))
        for arg in g.choice([[("nil",), I(3)], [I(3), ("nil",)], [("nil",), ("nil",)]]):
            tail.append(("print", ("call", V("orf"), [arg])))
        c.seen.add(("or", "nil")); c.seen.add(("or", "present"))
    if g.chance(30):
        # `a ?= <cell>` copies the VALUE of a list element / a field: a later write to that cell must not show through `a`
        src = g.choice(["element", "field", "element-in-if", "field-in-while"])
        g.label("unwrap-from-cell-then-write:" + src)
        tail.append(("decl", "wl", ("list", OI), ("list", [I(1), ("nil",), I(3)]), ()))
        tail.append(("decl", "wo", None, ("new", "KO", [I(5)]), ()))
        tail.append(("decl", "wa", OI, ("nil",), ()))
        cell = ("index", V("wl"), I(0)) if src.startswith("element") else ("field", V("wo"), "o")
        write = ("seti", V("wl"), I(0), I(100)) if src.startswith("element") else ("setf", V("wo"), "o", I(100))
        if src.endswith("-in-if"):
            tail.append(("if", ("unwrap", "wa", cell), [write, ("print", ("or", V("wa"), I(0 - 1)))], [("print", S("absent"))]))
        elif src.endswith("-in-while"):
            tail.append(("decl", "wn", None, I(0), ()))
            tail.append(("while", ("bin", "&&", ("bin", "<", V("wn"), I(2)), ("unwrap", "wa", cell)), [("decl", "wn", None, ("bin", "+", V("wn"), I(1)), ()), write, ("print", ("or", V("wa"), I(0 - 1)))]))
        else:
            tail.append(("expr_unwrap", "wa", cell))
            tail.append(write)
        tail.append(("print", ("or", V("wa"), I(0 - 1))))
        tail.append(("print", ("bin", "==", V("wa"), I(1 if src.startswith("element") else 5))))
        tail.append(("print", ("or", cell, I(0 - 2))))
    if in_fn:
        g.label("in-function")
        stmts.append(("decl", "body", None, ("fn", [("par", OI), ("pas", OS)], None, [("decl", "o_par", OI, V("par"), ())] + body), ()))
        stmts.append(("expr", ("call", V("body"), [I(3) if g.chance(50) else ("nil",), ("nil",) if g.chance(50) else S("arg")])))
        # parameters are visible as optional variables inside
    else:
        stmts += body
    stmts += tail
    both = {k for k, s in c.seen if (k, "nil") in c.seen and (k, "present") in c.seen}
    return {"stmts": lower(stmts), "labels": sorted(g.labels) + ["use:" + k for k, _ in c.seen], "nt": bool(both)}


@scenario.assert_kind("c12_getpos")
def a_getpos(a, res, ctx):
    err = res[a["step"]].stderr
    if "unwrap of `nil`" not in err:
        return "stderr lacks the `unwrap of nil` message: %r" % err[-300:]
    m = re.search(r"main\.ms:(\d+):(\d+): unwrap of", err)
    if not m:
        return "no file:line:col position in the unwrap error: %r" % err[-300:]
    line, col = int(m.group(1)), int(m.group(2))
    if line != a["line"] or not (a["col_min"] <= col <= a["col_max"]):
        return "unwrap error names %d:%d, the failing get spans line %d columns %d-%d" % (line, col, a["line"], a["col_min"], a["col_max"])


def precedence_cases():
    """`a ?= e` takes the WHOLE expression to its right (it binds more loosely than every operator): written without parentheses
    next to && || == != < + and `or`, in statement, `if` and `while` position, for bool / int optionals. The source text is written
    out (the printer would add parentheses); the expected lines follow from `a ?= (e)`"""
    out = []
    B = {True: "true", False: "false"}
    for p_ in (True, False):
        for q_ in (True, False):
            for op, fn in (("&&", lambda a, b: a and b), ("||", lambda a, b: a or b), ("==", lambda a, b: a == b), ("!=", lambda a, b: a != b)):
                val = fn(p_, q_)
                pre = "p = %s\nq = fn() -> bool {\n\tprint \"q\"\n\treturn %s\n}\nflag: bool? = nil\n" % (B[p_], B[q_])
                qruns = not ((op == "&&" and not p_) or (op == "||" and p_))
                ql = ["q"] if qruns else []
                out.append(("stmt:%s:%s:%s" % (op, p_, q_), pre + "flag ?= p %s q()\nprint flag\n" % op, ql + [B[val]]))
                out.append(("value:%s:%s:%s" % (op, p_, q_), pre + "r = flag ?= p %s q()\nprint r\nprint flag\n" % op, ql + ["true", B[val]]))
                out.append(("if:%s:%s:%s" % (op, p_, q_), pre + "if flag ?= p %s q() {\n\tprint \"stored\"\n} else {\n\tprint \"absent\"\n}\nprint flag\n" % op, ql + ["stored", B[val]]))
                out.append(("while:%s:%s:%s" % (op, p_, q_), pre + "n = 0\nwhile flag ?= p %s q() {\n\tn += 1\n\tif n > 1 {\n\t\tbreak\n\t}\n}\nprint n\nprint flag\n" % op, ql + ql + ["2", B[val]]))
    for a_, b_ in ((1, 2), (5, 5)):
        pre = "x = %d\ny = %d\ncnt: int? = nil\nlt: bool? = nil\no: int? = nil\n" % (a_, b_)
        out.append(("int-sum:%d" % a_, pre + "cnt ?= x + y * 2\nprint cnt\n", [str(a_ + b_ * 2)]))
        out.append(("bool-compare:%d" % a_, pre + "lt ?= x < y\nprint lt\nif lt ?= x + 1 >= y && x != 0 {\n\tprint get lt\n}\n", [B[a_ < b_], B[a_ + 1 >= b_ and a_ != 0]]))
        out.append(("int-or:%d" % a_, pre + "cnt ?= (o) or x + y\nprint cnt\n", [str(a_ + b_)]))
    # `a ?= <list literal>` for optional LISTS (of plain and of optional elements), in statement, value, `if` position
    for et, lit, n_, first_nil, second in (("int?", "[1, nil, 3]", 3, "false", "true"), ("int?", "[7, 8]", 2, "false", "false"), ("int", "[7, 8]", 2, None, None),
                                           ("str?", "[\"a\", nil]", 2, "false", "true"), ("str", "[\"a\"]", 1, None, None)):
        pre = "slots: [%s...]? = nil\n" % et
        tail = "cur = get slots\nprint cur.len()\n" + ("print cur[0] == nil\nprint cur[%d] == nil\n" % (1 if n_ > 1 else 0) if first_nil else "")
        exp_tail = [str(n_)] + ([first_nil, second if n_ > 1 else first_nil] if first_nil else [])
        out.append(("list-literal:stmt:%s:%s" % (et, lit), pre + "slots ?= %s\n" % lit + tail, exp_tail))
        out.append(("list-literal:value:%s:%s" % (et, lit), pre + "ok = slots ?= %s\nprint ok\n" % lit + tail, ["true"] + exp_tail))
        out.append(("list-literal:if:%s:%s" % (et, lit), pre + "if slots ?= %s {\n\tprint \"present\"\n} else {\n\tprint \"nil\"\n}\n" % lit + tail, ["present"] + exp_tail))
    return [{"precedence": n, "src": "print \"@start\"\n" + src + "print \"@end\"\n", "expect": ["@start"] + exp + ["@end"]} for n, src, exp in out]


def enumerated(tier, seed):
    return precedence_cases()


def check(case):
    if "precedence" in case:
        out = "\n".join(case["expect"]) + "\n"
        sc = scenario.simple(case["src"], asserts=[{"kind": "stdout_eq", "step": "run", "value": out}, {"kind": "exit", "step": "run", "in": ["ok"]}])
        r = CaseResult(nt_keys=[case["src"]], labels=["precedence-of-unwrap-assignment:" + case["precedence"].split(":")[0]], sample={"program_tail": case["src"][-300:], "expected": out[-200:]})
        res, fails, _ = scenario.execute(sc)
        if fails:
            if "Did not compile" in res["run"].stderr:
                diag = "\n".join(l for l in res["run"].stdout.split("\n") if " = " in l or "-->" in l)[:400]
                r.failure = fail("the compiler rejected a program the language accepts (%s):\n%s\n%s" % (case["precedence"], diag, case["src"]), "C12:rejected-valid-program", sc, case={"name": case["precedence"]})
            else:
                r.failure = fail("%s: %s\n%s" % (case["precedence"], "; ".join(fails), case["src"]), "C12:precedence:%s" % case["precedence"].split(":")[0], sc, case={"name": case["precedence"]})
        return r
    stmts = PRELUDE + [("print", S("@start"))] + case["stmts"] + [("print", S("@end"))]
    src, marks = ms.program(stmts)
    try:
        out, failure = model.Interp().run(stmts)
    except model.OutOfFuel:
        return CaseResult(evals=0, labels=["discard:model-fuel"])
    tail, _ = ms.program(case["stmts"])
    asserts = [{"kind": "stdout_eq", "step": "run", "value": out},
               {"kind": "exit", "step": "run", "in": ["ok"] if failure is None else ["error"]}]
    if failure is not None and failure.kind == "nil" and failure.node[0] == "get":
        l, c0 = marks[id(failure.node)]
        _, c1 = marks[("end", id(failure.node))]
        asserts.append({"kind": "c12_getpos", "step": "run", "line": l, "col_min": c0, "col_max": c1})
    sc = scenario.simple(src, asserts=asserts)
    r = CaseResult(nt_keys=[tail] if case["nt"] else [], labels=case["labels"] + ["model:" + (failure.kind if failure else "ok")],
                   sample={"program_tail": tail, "expected_stdout_tail": out[-300:], "expected_failure": failure.kind if failure else None})
    res, fails, _ = scenario.execute(sc)
    if fails:
        run = res["run"]
        if "Did not compile" in run.stderr:
            r.rejected = True
            if os.environ.get("MSV_DEBUG"):
                print("REJECTED:\n" + tail + "\n" + run.stdout[:600])
            if failure is None:
                # the reference interpreter runs this program to completion: a compile-time rejection of it is a violation
                # (when the model predicts a run-time failure, the compiler may legitimately report it earlier)
                diag = "\n".join(l for l in run.stdout.split("\n") if " = " in l or "-->" in l)[:600]
                r.failure = fail("the compiler rejected a program that the language accepts and the reference interpreter runs:\n" + diag + "\n" + tail,
                                 "C12:rejected-valid-program", sc, case={"diagnostics": diag})
            return r
        feats = sorted(set(l for l in case["labels"] if l in ("nested-block", "in-function")))
        sym = "stdout" if run.stdout != out else ("position" if run.klass == "error" and failure else "exit")
        r.failure = fail("; ".join(fails) + "\nprogram tail:\n" + tail, "C12:%s:%s:%s" % (sym, run.klass, ",".join(feats)), sc, case={"source_tail": tail})
    return r


def strategy(tier):
    return cases()


def n_random(tier):
    return 6400 if tier == "quick" else 120000


def files(case):
    return {"main.ms": ms.program(PRELUDE + [("print", S("@start"))] + case["stmts"] + [("print", S("@end"))])[0]}
