"""C19 — foreign calls pass the operand stack unchanged and deliver result or error."""
import os, re, base64
from hypothesis import strategies as st
from ..engine import CaseResult, fail
from .. import scenario, num
from ..gen import G

ID = "C19"
LEVEL = "exploration"
RULE = ("cases = SEQUENCES of 1-4 foreign calls in one program (a single call also inside a function, two functions deep, or inside the callback of list.map / list.filter), each call = (library: one of two builds of the probe that tag their output differently - under `lib<name>.so` or under a versioned name / an own extension / no extension / in a dotted directory, each with a decoy of the OTHER build under the name a normalised spelling would give - or a missing file) x (argument vector of length 0-6 over int, bigint, float, byte, bool, str with boundary values and "
        "format-special characters) x (return form: first argument echoed back, last argument echoed back, no value, raised error with a fixed message, raised error whose message is made of the string arguments - one or several lines - and must be reported whole) "
        "+ the fault cases missing library / missing symbol; the harness writes BINARY bytecode itself (its own encoder: "
        "push each argument, call_lib, then printn * / void alone (result discarded) / store + load + printn *, make_str AFTER, printn *) and a probe dylib built against the working tree's "
        "bytecode crate prints the Debug form of the slice it receives. Oracle: the probe's lines equal the generated vector in "
        "order; after the call `printn *` shows exactly the returned value (or nothing); for a raised error or a missing "
        "library/symbol: exit status 1, stderr carries the message, `AFTER` is not printed. Non-trivial = >= 2 arguments of >= 2 "
        "kinds, or an error / fault case; distinct by (vector, return form)")
ASSUMPTIONS = ["one toolchain-matched Rust dylib stands for 'a dynamic library'; other ABIs are out of reach",
               "opcode numbers are read from bytecode/src/instruction_constants.rs of the working tree"]

REPO = os.environ.get("VERIF_REPO", "/repo")
_ids = None


def ids():
    global _ids
    if _ids is None:
        text = open(os.path.join(REPO, "bytecode", "src", "instruction_constants.rs")).read()
        block = text[text.index("generate_consts! {"):]
        _ids = {m.group(1).lower(): int(m.group(2)) for m in re.finditer(r"^\s*([A-Z_0-9]+)\s+(\d+)\s*$", block, re.M)}
    return _ids


def quote(arg):
    return "\"" + arg.replace("\\", "\\\\").replace("\"", "\\\"").replace("\n", "\\n").replace("\r", "\\r").replace("\t", "\\t") + "\""


def encode(instrs, functions=()):
    """binary bytecode of one module: [(name, [args])] for __module__, preceded by further functions [(label, instrs)]"""
    out = bytearray()
    for label, body in list(functions) + [("__module__", instrs)]:
        out += b"f " + label.encode("utf-8") + b"\0"
        for name, args in body:
            out.append(ids()[name])
            for a in args:
                out += b" " + quote(a).encode("utf-8")
            out.append(0)
        out += b"e\0"
    return bytes(out)


CTXS = ["module", "fn", "fn-in-fn", "map", "filter", "map-second-element"]


def in_context(ctx, call_instrs):
    """the instructions of ONE foreign call (push args, call_lib, print the result) placed in a calling context.
    -> (module instructions, functions, how often the call runs when nothing fails)"""
    if ctx == "module":
        return call_instrs, [], 1
    call_fn = lambda label: [("make_function", ["main.mmm#" + label]), ("store_fast", ["#f"]), ("load_fast", ["#f"]), ("call", []), ("void", [])]
    if ctx == "fn":
        return call_fn("cb"), [("cb", call_instrs + [("void", []), ("ret", [])])], 1
    if ctx == "fn-in-fn":
        return call_fn("outer"), [("cb", call_instrs + [("void", []), ("ret", [])]), ("outer", call_fn("cb") + [("void", []), ("ret", [])])], 1
    # the call sits in the callback of list.map / list.filter over [1, 2]; with `map-second-element` only the SECOND element calls out
    result = [("make_bool", ["true"])] if ctx == "filter" else [("make_int", ["7"])]
    body = [("arg", ["0"]), ("store", ["x"])]
    if ctx == "map-second-element":
        # if x == 1 { return 7 }
        body += [("load", ["x"]), ("make_int", ["1"]), ("equ", []), ("if_stmt", ["4"]), ("make_int", ["7"]), ("ret", []), ("done", [])]
    cb = body + call_instrs + result + [("ret", [])]
    mod = [("make_function", ["main.mmm#cb"]), ("store", ["cbf"]), ("make_vector", ["2"]), ("store_fast", ["#0"]), ("make_int", ["1"]), ("vec_op", ["+#0"]),
           ("make_int", ["2"]), ("vec_op", ["+#0"]), ("delete_name_reference_scoped", ["#0"]), ("store", ["xs"]),
           ("load", ["xs"]), ("store_fast", ["#1"]), ("load_fast", ["#1"]), ("lookup", ["filter" if ctx == "filter" else "map"]), ("store_fast", ["#2"]),
           ("load", ["cbf"]), ("store_fast", ["#3"]), ("load_fast", ["#3"]), ("ld_self", ["#1"]), ("load_fast", ["#2"]), ("call", []), ("void", [])]
    return mod, [("cb", cb)], (1 if ctx == "map-second-element" else 2)


def push(v):
    k, x = v
    if k == "int":
        return ("make_int", [str(x)])
    if k == "bigint":
        return ("make_bigint", [str(x)])
    if k == "float":
        return ("make_float", [num.fmt_float(x) if x != int(x) else num.fmt_float(x) + ".0"])
    if k == "byte":
        return ("make_byte", ["0b" + bin(x)[2:]])
    if k == "bool":
        return ("make_bool", ["true" if x else "false"])
    return ("make_str", [x])


def rust_debug_str(s):
    out = []
    for ch in s:
        if ch == "\"":
            out.append("\\\"")
        elif ch == "\\":
            out.append("\\\\")
        elif ch == "\n":
            out.append("\\n")
        elif ch == "\t":
            out.append("\\t")
        elif ch == "\r":
            out.append("\\r")
        elif ch == "'":
            out.append("'")
        else:
            out.append(ch)
    return "\"" + "".join(out) + "\""


def debug(v):
    k, x = v
    if k == "int":
        return "Int(%d)" % x
    if k == "bigint":
        return "BigInt(%d)" % x
    if k == "float":
        t = num.fmt_float(x)
        return "Float(%s)" % (t if "." in t or "e" in t or t in ("inf", "-inf", "NaN") else t + ".0")
    if k == "byte":
        return "Byte(%d)" % x
    if k == "bool":
        return "Bool(%s)" % ("true" if x else "false")
    return "Str(%s)" % rust_debug_str(x)


def display(v):
    k, x = v
    if k in ("int", "bigint"):
        return str(x)
    if k == "float":
        return num.fmt_float(x)
    if k == "byte":
        return "0b" + bin(x)[2:]
    if k == "bool":
        return "true" if x else "false"
    return x


FORMS = {"first": "probe_echo_first", "last": "probe_echo_last", "none": "probe_none", "error": "probe_error", "errtext": "probe_error_text", "only1": "probe_only_in_first"}
# missing libraries: a path that does not exist, and BARE names (no slash: the system loader looks them up itself) that do not
# exist either but are spelled like something an earlier call of the same program has loaded - the internal name (SONAME) the
# probe builds carry, and the file name of a library that was opened through its path
LIBFILE = {1: "./libprobe.so", 2: "./libprobe2.so", "missing": "./no_such_library.so", "missing-soname": "libmsv_ffi_probe.so", "missing-bare": "libprobe.so", "missing-bare2": "libprobe2.so"}
MISSING = ("missing", "missing-soname", "missing-bare", "missing-bare2")
# the same two builds under file names that do not follow `lib<name>.so`: a versioned name, an own extension, no extension, a
# dotted directory.  Next to each lies a DECOY - the other build under the name a "normalised" spelling would give - so that
# opening anything but the named file shows in the tag of the output (or as a missing library).
# "search-path": a BARE file name (no directory part) that the system loader finds through its search path (LD_LIBRARY_PATH points at
# libs/, the working directory holds no file of that name) - the way shared libraries are normally named
NAMED = {"search-path": ("libsearch2.so", 2), "versioned": ("./libprobe.so.1", 1), "plugin-ext": ("./shapes.plugin", 1), "no-ext": ("./probe_noext", 2), "dotted-dir": ("./build.v2/libprobe.so", 2), "upper-ext": ("./Probe.SO", 1)}
DECOYS = {"./libprobe.so.1.so": 2, "./libprobe.so.so": 2, "./shapes.so": 2, "./probe_noext.so": 1, "./build.so": 1, "./Probe.so": 2}
for _k, (_path, _build) in NAMED.items():
    LIBFILE[_k] = _path
TAGS = {1: "PROBE", 2: "PROBE2"}
for _k, (_path, _build) in NAMED.items():
    TAGS[_k] = TAGS[_build]


def BUILD_OF(lib):
    return NAMED[lib][1] if lib in NAMED else lib


def calls_of(case):
    """a case is a SEQUENCE of foreign calls in one program; the legacy single-call shape is one element"""
    if "calls" in case:
        return [dict(c, args=[tuple(v) for v in c["args"]]) for c in case["calls"]]
    fault = case.get("fault")
    return [{"lib": "missing" if fault == "missing-library" else 1, "form": case["form"], "args": [tuple(v) for v in case["args"]],
             "symbol": "probe_does_not_exist" if fault == "missing-symbol" else None}]


def build(case):
    calls = calls_of(case)
    ctx = case.get("ctx", "module") if len(calls) == 1 else "module"
    instrs, exp = [], []
    functions, repeat = [], 1
    failed = None
    for c in calls:
        lib, form, vec = c["lib"], c["form"], c["args"]
        fn = c.get("symbol") or FORMS[form]
        # what the program does with the result: print it (the default), DISCARD it (`void` directly behind the call - a call in
        # statement position), or store it in a variable first
        use = c.get("use", "print")
        if use == "store" and (form in ("none", "only1") or not vec):
            use = "print"               # nothing to store when no value comes back
        after = {"print": [("printn", ["*"]), ("void", [])], "discard": [("void", [])],
                 "store": [("store", ["kept"]), ("load", ["kept"]), ("printn", ["*"]), ("void", [])]}[use]
        one = [push(v) for v in vec] + [("call_lib", [LIBFILE[lib], fn])] + after
        if ctx != "module":
            one, functions, repeat = in_context(ctx, one)
        instrs += one
        if failed is not None:
            continue
        if lib in MISSING:
            failed = "Could not open FFI Library"
            continue
        if c.get("symbol") or (form == "only1" and BUILD_OF(lib) == 2):
            failed = "Could not find symbol"
            continue
        exp.append("%s %s argc=%d" % (TAGS[lib], fn, len(vec)))
        exp += ["%s arg%d=%s" % (TAGS[lib], i, debug(v)) for i, v in enumerate(vec)]
        if form == "error":
            failed = "FFI: probe failure with %d argument(s)" % len(vec)
            continue
        if form == "errtext":
            # the WHOLE message, every line of it (the report indents continuation lines: compared modulo leading blanks)
            failed = "FFI: says <%s>" % "|".join(x for k, x in vec if k == "str")
            continue
        if use == "discard":
            pass                        # nothing is printed for a discarded result
        elif form in ("none", "only1") or not vec:
            exp.append("")
        else:
            exp.append(display(vec[0] if form == "first" else vec[-1]))
    if repeat == 2 and failed is None:
        exp = exp + exp                 # the callback ran for both elements
    instrs += [("make_str", ["AFTER"]), ("printn", ["*"]), ("void", []), ("ret_mod", [])]
    data = encode(instrs, functions)
    if failed:
        asserts = [{"kind": "stdout_eq", "step": "run", "value": "".join(l + "\n" for l in exp)},
                   {"kind": "exit", "step": "run", "in": ["error"]}, {"kind": "c19_message", "step": "run", "value": failed},
                   {"kind": "stdout_lacks", "step": "run", "value": "AFTER"}]
    else:
        exp.append("AFTER")
        asserts = [{"kind": "stdout_eq", "step": "run", "value": "".join(l + "\n" for l in exp)}, {"kind": "exit", "step": "run", "in": ["ok"]}]
    return {"files": {"p/q/r/main.mmm": {"b64": base64.b64encode(data).decode()}}, "symlinks": dict({"p/q/r/libprobe.so": "{PROBE}", "p/q/r/libprobe2.so": "{PROBE2}"},
                             **{"p/q/r/" + (pth[2:] if pth.startswith("./") else "libs/" + pth): "{PROBE}" if b == 1 else "{PROBE2}" for pth, b in list(NAMED.values()) + list(DECOYS.items())}),
            "dirs": ["p/q/r/build.v2", "p/q/r/libs"], "cwd": "p/q/r",
            "steps": [{"id": "run", "argv": ["mscript", "execute", "main.mmm"], "env": {"LD_LIBRARY_PATH": "{ROOT}/p/q/r/libs"}}], "asserts": asserts}


def _flat(text):
    return "\n".join(l.lstrip(" \t") for l in text.replace("\r\n", "\n").split("\n"))


@scenario.assert_kind("c19_message")
def a_message(a, res, ctx):
    """the run-time error carries the message: all of it, modulo the indentation the report gives to continuation lines"""
    if _flat(a["value"]) not in _flat(res[a["step"]].stderr):
        return "step %s: stderr lacks the message %r: %r" % (a["step"], a["value"], res[a["step"]].stderr[-400:])


def describe(case):
    return ("[in %s] " % case["ctx"] if case.get("ctx") and case.get("ctx") != "module" else "") + " ; ".join("lib%s.%s(%s)" % (c["lib"], c.get("symbol") or c["form"], ", ".join(debug(tuple(v)) for v in c["args"])) for c in calls_of(case))


def check(case):
    calls = calls_of(case)
    sc = build(case)
    res, fails, _ = scenario.execute(sc)
    kinds = set(k for c in calls for k, _ in c["args"])
    faulty = any(c["lib"] in MISSING or c.get("symbol") or c["form"] in ("error", "errtext") or (c["form"] == "only1" and BUILD_OF(c["lib"]) == 2) for c in calls)
    nt = any(len(c["args"]) >= 2 and len(set(k for k, _ in c["args"])) >= 2 for c in calls) or faulty or len(calls) >= 2
    labels = ["calls=%d" % len(calls), "libs=%d" % len(set(c["lib"] for c in calls))] + ["form=" + c["form"] for c in calls] + ["argc=%d" % len(c["args"]) for c in calls] + \
             ["kind=" + k for k in kinds] + (["fault"] if faulty else [])
    r = CaseResult(nt_keys=[describe(case)] if nt else [], labels=labels, sample={"case": describe(case)})
    if fails:
        r.failure = fail(describe(case) + ": " + "; ".join(fails), "C19:%s:%s:%s" % (calls[-1]["form"], "seq%d" % len(calls), res["run"].klass), sc,
                         case={"calls": [dict(c, args=[list(v) for v in c["args"]]) for c in calls]})
    return r


VALUES = [("int", 0), ("int", -1), ("int", 2147483647), ("int", -2147483648), ("bigint", 0), ("bigint", 2 ** 127 - 1), ("bigint", -2 ** 127), ("bigint", 2 ** 64),
          ("float", 0.5), ("float", -1.25), ("float", 3.0), ("float", 123456789.125), ("byte", 0), ("byte", 255), ("bool", True), ("bool", False),
          ("str", ""), ("str", "a b"), ("str", "q\"r"), ("str", "back\\slash"), ("str", "tab\there"), ("str", "line\nbreak"), ("str", "é😀"), ("str", " lead"), ("str", "x")]


def enumerated(tier, seed):
    cases = [{"args": [], "form": f} for f in FORMS]
    for v in VALUES:
        for f in FORMS:
            cases.append({"args": [v], "form": f})
    for a in VALUES[::3]:
        for b in VALUES[1::4]:
            cases.append({"args": [a, b], "form": "first"})
            cases.append({"args": [a, b], "form": "last"})
    # error messages chosen by the caller: one / several lines, leading and trailing line breaks, format-special text
    for text in ("plain", "two\nlines", "three\nlines\nhere", "\nleading break", "trailing break\n", "a\n\nb", "tab\there", "q\"r", "back\\slash", "é😀", "", " lead", "cr\r\nlf"):
        cases.append({"args": [("int", 1), ("str", text)], "form": "errtext"})
        cases.append({"args": [("str", text), ("str", "x\ny")], "form": "errtext"})
    # ONE call in every calling context: inside a function, two functions deep, inside the callback of list.map / list.filter
    for cx in CTXS[1:]:
        for f in ("first", "last", "none", "error", "errtext"):
            for args in ([("int", 7), ("str", "x y")], [], [("str", "two\nlines"), ("bigint", 2 ** 64)]):
                cases.append({"args": args, "form": f, "ctx": cx})
        for fault in ("missing-library", "missing-symbol"):
            cases.append({"args": [("int", 1)], "form": "first", "fault": fault, "ctx": cx})
    # every return form with its result DISCARDED / STORED instead of printed, at module level and inside a function
    for use in ("discard", "store"):
        for f in ("first", "last", "none", "error", "errtext"):
            for args in ([("int", 7), ("str", "x y")], [], [("str", "two\nlines"), ("bigint", 2 ** 64)]):
                cases.append({"calls": [{"lib": 1, "form": f, "args": args, "symbol": None, "use": use}]})
                cases.append({"calls": [{"lib": 1, "form": f, "args": args, "symbol": None, "use": use}], "ctx": "fn"})
                cases.append({"calls": [{"lib": 2, "form": "first", "args": [("int", 1)], "symbol": None}, {"lib": 1, "form": f, "args": args, "symbol": None, "use": use},
                                        {"lib": 1, "form": "last", "args": [("int", 3)], "symbol": None}]})
        for fault, sym, lib in (("missing-library", None, "missing"), ("missing-symbol", "probe_does_not_exist", 1)):
            cases.append({"calls": [{"lib": lib, "form": "first", "args": [("int", 1)], "symbol": sym, "use": use}]})
    for nm in NAMED:
        for f in ("first", "none", "error", "only1"):
            cases.append({"calls": [{"lib": nm, "form": f, "args": [("int", 7), ("str", "x y")], "symbol": None}]})
        cases.append({"calls": [{"lib": nm, "form": "first", "args": [("int", 1)], "symbol": None}, {"lib": 1, "form": "last", "args": [("int", 2)], "symbol": None},
                                {"lib": nm, "form": "last", "args": [("str", "z")], "symbol": None}]})
    for fault in ("missing-library", "missing-symbol"):
        for n in (0, 1, 3):
            cases.append({"args": VALUES[:n], "form": "first", "fault": fault})
    # sequences: every ordered pair of (library, form) for two calls, and the faults AFTER a successful call
    C = lambda lib, form, args, symbol=None: {"lib": lib, "form": form, "args": args, "symbol": symbol}
    a1, a2 = [("int", 7), ("str", "x y")], [("bigint", 2 ** 64), ("float", 0.5), ("bool", True)]
    for l1 in (1, 2):
        for l2 in (1, 2):
            for f1 in ("first", "last", "none", "only1"):
                for f2 in ("first", "last", "none", "error", "errtext", "only1"):
                    cases.append({"calls": [C(l1, f1, a1), C(l2, f2, a2)]})
    for l1 in (1, 2):
        for f1 in ("first", "last", "none", "error"):
            cases.append({"calls": [C("search-path", f1, a1)]})
            cases.append({"calls": [C(l1, f1, a1), C("search-path", "last", a2), C(l1, "first", a2)]})
        for m in MISSING:
            cases.append({"calls": [C(l1, "first", a1), C(m, "first", a2)]})
            cases.append({"calls": [C("search-path", "first", a1), C(m, "first", a2)]})
            cases.append({"calls": [C(l1, "none", a1), C(3 - l1, "last", a2), C(m, "last", a1), C(l1, "first", a2)]})
            cases.append({"calls": [C(m, "first", a1)]})
        cases.append({"calls": [C(l1, "first", a1), C(3 - l1, "first", a2, "probe_does_not_exist")]})
        cases.append({"calls": [C(l1, "first", a1), C(l1, "first", a2), C(3 - l1, "last", a1), C(l1, "none", [])]})
        cases.append({"calls": [C(l1, "first", a1), C(l1, "error", a2), C(l1, "first", a1)]})
    return cases


@st.composite
def vectors(draw):
    g = G(draw)
    n = g.int(0, 6)
    args = []
    for _ in range(n):
        k = g.choice(["int", "bigint", "float", "byte", "bool", "str"])
        if k == "int":
            v = draw(st.integers(-2 ** 31, 2 ** 31 - 1))
        elif k == "bigint":
            v = draw(st.integers(-2 ** 127, 2 ** 127 - 1))
        elif k == "float":
            v = draw(st.integers(-2 ** 20, 2 ** 20)) / 8.0
        elif k == "byte":
            v = g.int(0, 255)
        elif k == "bool":
            v = g.chance(50)
        else:
            v = draw(st.text(alphabet=list("ab \"\\\t\n'é😀#.-"), max_size=6))
        args.append((k, v))
    return args


@st.composite
def sequences(draw):
    g = G(draw)
    calls = []
    ctx = g.choice(CTXS + ["module"] * 3)
    for _ in range(g.weighted([(5, 1), (3, 2), (2, 3), (1, 4)])):
        args = draw(vectors())
        fault = g.weighted([(12, None), (1, "missing-library"), (1, "missing-symbol")])
        calls.append({"lib": g.choice(list(MISSING)) if fault == "missing-library" else g.choice([1, 1, 2] + (list(NAMED) if g.chance(30) else [])), "form": g.choice(["first", "last", "none", "error", "errtext", "only1", "first", "last"]),
                      "args": args, "symbol": "probe_does_not_exist" if fault == "missing-symbol" else None, "use": g.weighted([(6, "print"), (2, "discard"), (2, "store")])})
    return {"calls": calls, "ctx": ctx} if len(calls) == 1 else {"calls": calls}


def strategy(tier):
    return sequences()


def n_random(tier):
    return 1600 if tier == "quick" else 15000
