"""C20 — `clean DIR` deletes exactly the *.mmm regular files directly in DIR."""
import os, itertools
from hypothesis import strategies as st
from ..engine import CaseResult, fail
from .. import scenario

ID = "C20"
LEVEL = "exploration"
RULE = ("cases are directory trees (entries: regular file - with ordinary, read-only, no, read+execute or write-only permission bits - / directory with children / symlink to a file inside, "
        "to a file outside DIR, or dangling) over the property's name set (incl. names that are not valid UTF-8 and groups of siblings that differ only in letter case), with DIR itself named plainly or like a source file / a bytecode file / hidden / with a space / non-ASCII and spelled relative, ./relative, "
        "trailing slash, absolute or omitted; enumerated part = every 1- and 2-entry DIR over (name x kind) plus a stem family (every one-character stem, every prefix and suffix of the words the tool spells - transpiled, mmm, ms, clean - as <stem>.mmm); random part "
        "= Hypothesis trees with up to 8 entries and sub-directories. Non-trivial = DIR holds at least one regular "
        "*.mmm file AND (a near-miss name or a directory/symlink named *.mmm or a sub-directory holding *.mmm); "
        "distinct = canonical tree + spelling")
ASSUMPTIONS = ["'.mmm' (no stem) is treated as ambiguous: it may be kept or removed",
               "a symlink named *.mmm may be kept or removed, its target must stay untouched"]

NAMES = ["x.mmm", "y.mmm", "x.ms", "x.mmm.bak", "x.transpiled.mmm", ".mmm", "mmm", "x.MMM", "x.mmm~",
         "a b.mmm", "a.b.c.mmm", "é.mmm", "x.mmmm", "xmmm", "x.mm",
         # names that are NOT valid UTF-8 (a Latin-1 e-acute, a lone 0xFF), spelled with Python's surrogate escapes:
         # os.fsencode() turns "\udce9" into the single byte 0xE9
         "caf\udce9.mmm", "\udcff.mmm", "x.mmm\udce9", "caf\udce9.ms",
         # siblings that differ only in letter case / form one prefix of the other (entries must be handled one by one)
         "X.mmm", "Vector.mmm", "vector.mmm", "VECTOR.mmm", "x.mmm.mmm", "x",
         # hidden files that ARE bytecode files by their extension (a leading dot is part of the stem)
         ".demo.mmm", ".cache.v2.mmm", "..mmm", ".x.ms"]
_WORDS = ["transpiled", "mmm", "ms", "clean", "mscript"]
STEMS = sorted(set([c + ".mmm" for c in "abcdefghijklmnopqrstuvwxyzABCDEFGHIJKLMNOPQRSTUVWXYZ0123456789_-"]
                   + [w[i:] + ".mmm" for w in _WORDS for i in range(len(w))] + [w[:i] + ".mmm" for w in _WORDS for i in range(1, len(w) + 1)]
                   + ["x." + w[i:] + ".mmm" for w in _WORDS[:1] for i in range(len(w))]))
KINDS = ["file", "dir", "ln_in", "ln_out", "ln_dangling", "file_ro", "file_none", "file_rx", "file_wo"]
# permission bits of the FILE do not decide whether it can be deleted (the directory's do): read-only, inaccessible,
# executable and write-only bytecode files are files like any other
FILE_MODES = {"file_ro": 0o444, "file_none": 0o000, "file_rx": 0o555, "file_wo": 0o200}
SPELL = ["rel", "dotrel", "slash", "abs", "omitted"]


def has_ext_mmm(name):
    # the statement: "files ... whose extension is `mmm`": text after the last dot of a name with a non-empty stem
    i = name.rfind(".")
    return i > 0 and name[i + 1:] == "mmm"


def build(case):
    """case = {"entries":[(name, kind, children)], "spell": s}; children = [(name, kind)] for dirs."""
    base = "p/q/r"
    dn = case.get("dirname", "DIR")
    D = base + "/" + dn
    files = {base + "/canary.mmm": "canary-beside", "p/q/above.mmm": "canary-above",
             base + "/target_out.mmm": "outside-target", D + "/zz_target_in.txt": "inside-target"}
    dirs = [D]
    import re as _re
    for part in _re.split(r"[,;:=|&+]", dn):
        if part and part != dn:
            dirs.append(base + "/" + part)
            files[base + "/" + part + "/decoy.mmm"] = "bytecode of a sibling directory"
    symlinks = {}
    modes = {}
    must_remove, may_remove = [], []
    for name, kind, children in case["entries"]:
        p = D + "/" + name
        if kind == "file" or kind in FILE_MODES:
            files[p] = "content of " + show(name)
            if kind in FILE_MODES:
                modes[p] = FILE_MODES[kind]
            if has_ext_mmm(name):
                must_remove.append(p)
            elif name == ".mmm":
                may_remove.append(p)
        elif kind == "dir":
            dirs.append(p)
            for cn, ck in children:
                cp = p + "/" + cn
                if ck == "file":
                    files[cp] = "child " + show(cn)
                elif ck == "dir":
                    dirs.append(cp)
                else:
                    symlinks[cp] = "../zz_target_in.txt"
        else:
            symlinks[p] = {"ln_in": "zz_target_in.txt", "ln_out": "../target_out.mmm", "ln_dangling": "nowhere.mmm"}[kind]
            if has_ext_mmm(name) or name == ".mmm":
                may_remove.append(p)
    sp = case["spell"]
    cwd = base
    if sp == "rel":
        argv = ["mscript", "clean", dn]
    elif sp == "dotrel":
        argv = ["mscript", "clean", "./" + dn]
    elif sp == "slash":
        argv = ["mscript", "clean", dn + "/"]
    elif sp == "abs":
        argv = ["mscript", "clean", "{ROOT}/" + D]
    else:
        argv = ["mscript", "clean"]
        cwd = D
    sc = {"files": files, "dirs": dirs, "symlinks": symlinks, "modes": modes, "cwd": cwd,
          "steps": [{"id": "clean", "argv": argv}],
          "asserts": [{"kind": "exit", "step": "clean", "in": ["ok"]},
                      {"kind": "c20_fs", "step": "clean", "must_remove": sorted(must_remove), "may_remove": sorted(may_remove)}]}
    return sc, must_remove, may_remove


def show(p):
    """a path as printable ASCII (names may hold bytes that are not UTF-8)"""
    return p.encode("utf-8", "backslashreplace").decode("ascii", "backslashreplace")


def snapshot(root):
    snap = {}
    for dp, dn, fn in os.walk(root, followlinks=False):
        for n in dn + fn:
            p = os.path.join(dp, n)
            rel = os.path.relpath(p, root)
            if os.path.islink(p):
                snap[rel] = ("link", os.readlink(p))
            elif os.path.isdir(p):
                snap[rel] = ("dir", None)
            else:
                snap[rel] = ("file", open(p, "rb").read())
    return snap


@scenario.assert_kind("c20_fs")
def a_fs(a, res, ctx, phase=None):
    sc_files = ctx["sc"]["files"]
    exp = {}
    for d in ctx["sc"].get("dirs", []):
        parts = d.split("/")
        for i in range(1, len(parts) + 1):
            exp["/".join(parts[:i])] = ("dir", None)
    for f, c in sc_files.items():
        parts = f.split("/")
        for i in range(1, len(parts)):
            exp["/".join(parts[:i])] = ("dir", None)
        exp[f] = ("file", c.encode() if isinstance(c, str) else c)
    for l, t in ctx["sc"].get("symlinks", {}).items():
        exp[l] = ("link", t)
    got = snapshot(ctx["root"])
    out = []
    removed = 0
    for p, v in exp.items():
        if p in a["must_remove"]:
            if p in got:
                out.append("not removed: %s" % show(p))
            else:
                removed += 1
        elif p in a["may_remove"]:
            if p not in got:
                removed += 1
            elif got[p] != v:
                out.append("altered: %s" % show(p))
        else:
            if p not in got:
                out.append("wrongly deleted: %s (%s)" % (show(p), v[0]))
            elif got[p] != v:
                out.append("altered: %s" % show(p))
    for p in got:
        if p not in exp:
            out.append("unexpected new entry: %s" % show(p))
    r = res[a["step"]]
    line = "Removed %d files" % removed
    if r.klass == "ok" and line not in r.stdout.split("\n"):
        out.append("reported count wrong: expected line %r in %r" % (line, r.stdout[-200:]))
    return out or None


# (a DIR whose own name is not valid UTF-8 is refused by the argument parser of every sub-command: outside this property)
DIRNAMES = ["DIR", "x.ms", "Lib.MS", "proj.mmm", "d.ms.d", ".cfg", "a b", "ms", "caf\u00e9",
            # characters that mean something to a command line, a shell, a glob or a list syntax - in a NAME they mean nothing;
            # for each separator-like character the parts on either side of it exist as sibling directories with bytecode of their own
            "app,v2", "a;b", "a:b", "a=b", "a*b", "a?b", "[ab]", "{a,b}", "@dir", "a'b", "a\"b", "a$HOME", "#dir", "a%20b", "a&b", "~dir", "a+b", "a|b", "!dir", "a^b"]


def canon(case):
    return repr((sorted((n, k, tuple(sorted(c))) for n, k, c in case["entries"]), case["spell"], case.get("dirname", "DIR")))


def nontrivial(case):
    top = case["entries"]
    has_target = any(k.startswith("file") and has_ext_mmm(n) for n, k, _ in top)
    near = any((k.startswith("file") and not has_ext_mmm(n)) or (not k.startswith("file") and has_ext_mmm(n)) or
               (k == "dir" and any(has_ext_mmm(cn) for cn, _ in c)) for n, k, c in top)
    return has_target and near


def signature(case, fails, res):
    r = res["clean"]
    kinds_mmm = sorted(set(k for n, k, _ in case["entries"] if has_ext_mmm(n) and k != "file"))
    if r.klass != "ok":
        return "C20:exit-%s:nonfile-mmm=%s" % (r.klass, ",".join(kinds_mmm) or "none")
    what = sorted(set(f.split(":")[0] for f in fails))
    return "C20:" + ",".join(what)


def check(case):
    sc, must, may = build(case)
    res, fails, _ = scenario.execute(sc)
    labels = ["spell=" + case["spell"]] + ["kind=" + k for k in set(k for _, k, _ in case["entries"])]
    labels.append("entries=%d" % len(case["entries"]))
    r = CaseResult(nt_keys=[canon(case)] if nontrivial(case) else [], labels=labels,
                   sample={"dirname": show(case.get("dirname", "DIR")), "entries": [(show(n), k, [(show(cn), ck) for cn, ck in ch]) for n, k, ch in case["entries"]], "spell": case["spell"], "must_remove": [show(m) for m in must]})
    if fails:
        r.failure = fail("; ".join(fails), signature(case, fails, res), sc, case=case)
    return r


def enumerated(tier, seed):
    singles = [(n, k, [("x.mmm", "file"), ("sub", "dir")] if k == "dir" else []) for n in NAMES for k in KINDS]
    cases = [{"entries": [e], "spell": "rel"} for e in singles]
    for a, b in itertools.combinations(singles, 2):
        if a[0] != b[0]:
            cases.append({"entries": [a, b], "spell": "rel"})
    if tier == "quick":
        cases = cases[:len(singles)] + cases[len(singles)::3]
    # groups of siblings whose names collide under case folding / prefixing
    for group in (["x.mmm", "X.mmm"], ["Vector.mmm", "vector.mmm", "VECTOR.mmm"], ["x.mmm", "x.mmm.mmm", "x"], ["\u00e9.mmm", "x.mmm", "X.mmm", "x.MMM"]):
        for kinds in (["file"] * len(group), ["file"] + ["ln_in"] * (len(group) - 1), ["dir"] + ["file"] * (len(group) - 1)):
            cases.append({"entries": [(n, k, [("x.mmm", "file")] if k == "dir" else []) for n, k in zip(group, kinds)], "spell": "rel"})
    # stem family: every one-character stem and every suffix / prefix of the words the tool itself spells ("transpiled", "mmm",
    # "ms", "clean"): a name test that compares text position by position must not match a shorter name
    cases.append({"entries": [(n, "file", []) for n in STEMS], "spell": "rel"})
    for n in STEMS:
        cases.append({"entries": [(n, "file", []), ("keep.ms", "file", [])], "spell": "rel"})
    # the NAME of DIR itself (named like a source file, like a bytecode file, hidden, with a space, non-ASCII) x every spelling
    probe = [("x.mmm", "file", []), ("x.ms", "file", []), ("sub", "dir", [("x.mmm", "file")])]
    for dn in DIRNAMES:
        for sp in SPELL:
            cases.append({"entries": probe, "spell": sp, "dirname": dn})
    return cases


@st.composite
def trees(draw):
    names = draw(st.lists(st.sampled_from(NAMES) | st.sampled_from(STEMS), min_size=1, max_size=8, unique=True))
    entries = []
    for n in names:
        k = draw(st.sampled_from(["file", "file", "file"] + KINDS))
        ch = []
        if k == "dir":
            cn = draw(st.lists(st.sampled_from(NAMES), max_size=3, unique=True))
            ch = [(c, draw(st.sampled_from(["file", "file", "dir", "ln"]))) for c in cn]
        entries.append((n, k, ch))
    return {"entries": entries, "spell": draw(st.sampled_from(SPELL)), "dirname": draw(st.sampled_from(["DIR", "DIR", "DIR"] + DIRNAMES))}


def strategy(tier):
    return trees()


def n_random(tier):
    return 1600 if tier == "quick" else 40000
