"""C07 — closures capture variables by reference; `modify` writes through."""
import os
from hypothesis import strategies as st
from ..engine import CaseResult, fail
from .. import scenario, ms, model
from ..gen import G, I

ID = "C07"
LEVEL = "exploration"
RULE = ("cases are a scene (module variables; factories whose locals are captured by the closures they return, singly, "
        "as a list sharing one local, or nested two deep, or created inside an if / else / while / from block of a factory that shadows a captured variable with a same-named local, or over an OPTIONAL local that closures bump and reset to nil through `modify`, or taking a VALUE out of a list element / map entry with `modify` while another closure writes that cell, or over a local holding a list / a function that `modify` replaces by an equal-looking new value; readers / setters / incrementers / shadowing bodies; higher-order "
        "callers that deliberately own locals with the same names as captured variables) plus a history of up to 12 steps "
        "(create instance, call closure directly / through an alias / through a list / through a higher-order function / "
        "inside a block, through the built-ins filter / map for factory-made closures that take a parameter, owner writes in every form - assignment, op-assignment, assignment inside a block, `?=` as statement / as `if` or `while` condition / inside a block, at module level and inside a factory after the closure exists -, print, is_closure()); a print follows every step. Oracle = reference interpreter "
        "with explicit cells. Non-trivial = a write through one closure is later observed through another closure or the "
        "owner, or two instances of one factory coexist; distinct by program text")
ASSUMPTIONS = ["capture rule: the free variables of the function body (transitively); is_closure() <=> that set is non-empty"]

S = lambda s: ("lit", "str", s)
V = lambda n: ("var", n)
FI = ("fn", [], "int")          # fn() -> int


def body_for(kind, v, w=None, k=1):
    """closure literal of type fn() -> int (or fn(int) for setters) over captured variable v"""
    if kind == "read":
        return ("fn", [], "int", [("return", V(v))])
    if kind == "read2":
        return ("fn", [], "int", [("return", ("bin", "+", ("bin", "*", V(v), I(100)), V(w)))])
    if kind == "inc":
        return ("fn", [], "int", [("decl", v, None, ("bin", "+", V(v), I(k)), ("modify",)), ("return", V(v))])
    if kind == "shadow":
        return ("fn", [], "int", [("decl", v, None, I(70 + k), ()), ("decl", v, None, ("bin", "+", V(v), I(1)), ()), ("return", V(v))])
    if kind == "set":
        return ("fn", [("a", "int")], None, [("decl", v, None, V("a"), ("modify",))])
    if kind == "nested":
        return ("fn", [], FI, [("return", ("fn", [], "int", [("decl", v, None, ("bin", "+", V(v), I(k)), ("modify",)), ("return", V(v))]))])
    if kind == "modthennest":
        # the middle closure WRITES the captured variable and then creates an inner closure that reads (or writes) it
        inner = ("fn", [], "int", [("return", V(v))]) if k % 2 else ("fn", [], "int", [("decl", v, None, ("bin", "+", V(v), I(1)), ("modify",)), ("return", V(v))])
        return ("fn", [], FI, [("decl", v, None, ("bin", "+", V(v), I(10 * k)), ("modify",)), ("return", inner)])
    if kind == "pure":
        return ("fn", [], "int", [("return", I(40 + k))])
    if kind == "condinc":
        return ("fn", [], "int", [("if", ("bin", "<", V(v), I(5)), [("decl", v, None, ("bin", "+", V(v), I(k)), ("modify",))],
                                  [("decl", v, None, I(0), ("modify",))]), ("return", V(v))])
    if kind == "inctwice":
        # `modify` of one captured variable at the top level of the closure AND again inside a nested block
        return ("fn", [], "int", [("decl", v, None, ("bin", "+", V(v), I(k)), ("modify",)),
                                  ("if", ("bin", ">", V(v), I(2)), [("decl", v, None, ("bin", "+", V(v), I(10)), ("modify",))], None), ("return", V(v))])
    if kind == "loopshadow":
        # a loop body declares its OWN variable named like the captured one; after the loop - inside a block, or inside a closure
        # created there - the name means the captured variable again
        return ("fn", [], "int", [("decl", "go", None, I(0), ()),
                                  ("while", ("bin", "<", V("go"), I(1)), [("decl", "go", None, ("bin", "+", V("go"), I(1)), ()), ("decl", v, None, I(70 + k), ())]),
                                  ("if", ("bin", "==", V("go"), I(1)), [("return", ("bin", "+", V(v), I(0)))], None), ("return", I(0 - 1))])
    if kind == "loopshadowinner":
        return ("fn", [], "int", [("decl", "go", None, I(0), ()),
                                  ("while", ("bin", "<", V("go"), I(1)), [("decl", "go", None, ("bin", "+", V("go"), I(1)), ()), ("decl", v, None, I(70 + k), ())]),
                                  ("decl", "late", None, ("fn", [], "int", [("return", V(v))]), ()), ("return", ("call", V("late"), []))])
    if kind == "opinc":
        # an op-assignment on the captured variable (no `modify`): it writes the captured variable, whatever the callers own
        return ("fn", [], "int", [("opassign", V(v), g_op(k), I(k)), ("return", V(v))])
    if kind == "afterloop":
        # a from loop whose COUNTER is named like the captured variable; after the loop - in a closure created there - the name
        # means the captured variable again (the counter is gone)
        return ("fn", [], "int", [("decl", "acc", None, I(0), ()), ("from", I(0), I(k + 1), False, None, v, [("decl", "acc", None, ("bin", "+", V("acc"), V(v)), ())]),
                                  ("decl", "late", None, ("fn", [], "int", [("return", V(v))]), ()), ("return", ("bin", "+", ("bin", "*", ("call", V("late"), []), I(100)), V("acc")))])
    if kind == "ifshadow":
        return ("fn", [], "int", [("if", ("bin", ">=", I(k), I(0)), [("decl", v, None, I(70 + k), ())], None),
                                  ("from", I(0), I(1), False, None, None, [("return", V(v))]), ("return", I(0 - 1))])
    if kind == "localcopy":
        # the local-copy idiom: the right-hand side reads the CAPTURED variable, the plain assignment creates a local
        return ("fn", [], "int", [("decl", v, None, ("bin", "+", V(v), I(k)), ()), ("decl", v, None, ("bin", "*", V(v), I(2)), ()), ("return", V(v))])
    if kind == "mcallarg":
        # the captured variable is used only as an argument of a method call
        return ("fn", [], "int", [("decl", "box", ("list", "int"), ("list", [I(k)]), ()), ("expr", ("mcall", V("box"), "push", [V(v)])),
                                  ("return", ("index", V("box"), I(1)))])
    if kind == "loopsum":
        return ("fn", [], "int", [("decl", "acc", None, I(0), ()), ("from", I(0), V(v), False, None, "q", [("decl", "acc", None, ("bin", "+", V("acc"), V("q")), ())]),
                                  ("return", V("acc"))])
    raise ValueError(kind)


RET_INT = ["read", "inc", "shadow", "pure", "condinc", "loopsum"]
g_op = lambda k: ["+=", "-=", "*="][k % 3]


@st.composite
def cases(draw):
    g = G(draw)
    stmts = []
    mvars = ["x", "y", "z"][:g.int(1, 3)]
    for i, v in enumerate(mvars):
        stmts.append(("decl", v, None, I(g.int(0, 9)), ()))
    # higher-order callers; their parameter / local names may collide with captured names
    collide = g.chance(35)
    loc = g.choice(mvars) if collide else "tmp"
    if collide:
        g.label("caller-owns-same-name")
    stmts.append(("decl", "apply", None, ("fn", [("f", FI)], "int",
                  [("decl", loc, None, I(1000), ()), ("decl", "r", None, ("call", V("f"), []), ()), ("return", ("bin", "+", V("r"), ("bin", "-", V(loc), I(1000))))]), ()))
    closures = []       # (name, kind: 'int'|'set'|'nested'|'list', writes: bool, group)
    facts = []          # (name, returns)
    nf = g.int(0, 2)
    for fi in range(nf):
        fname = "mk%d" % fi
        local = g.choice(mvars) if g.chance(30) else "c%d" % fi
        if local in mvars:
            g.label("factory-local-shadows-module-var")
        shape = g.weighted([(3, "single"), (3, "pair"), (2, "nested"), (1, "mixed"), (3, "blockcreate"), (2, "elemwrite"), (2, "optstate"), (2, "liststate"), (2, "fnstate"), (3, "ownerwrite"), (3, "modifyfromcell")])
        if shape == "elemwrite":
            # a closure whose ONLY use of a captured list is as the target of an element assignment / op-assignment (and whose
            # only use of a captured int is as the index) must still capture them
            k = g.int(1, 9)
            wk = g.choice(["seti", "opassign", "seti-last"])
            if wk == "seti":
                wbody = [("seti", V("lst"), I(0), I(k)), ("return", I(0))]
            elif wk == "opassign":
                wbody = [("opassign", ("index", V("lst"), I(1)), "+=", I(k)), ("return", I(0))]
            else:
                wbody = [("seti", V("lst"), I(1), I(k)), ("return", I(1))]
            body = [("decl", "lst", ("list", "int"), ("list", [V("init"), I(0)]), ()), ("decl", "at", None, I(1), ()),
                    ("decl", "fa", None, ("fn", [], "int", wbody), ()),
                    ("decl", "fb", None, ("fn", [], "int", [("return", ("bin", "+", ("bin", "*", ("index", V("lst"), I(0)), I(100)), ("index", V("lst"), I(1))))]), ()),
                    ("decl", "out", ("list", FI), ("list", [V("fa"), V("fb")]), ()), ("return", V("out"))]
            facts.append((fname, "list"))
            stmts.append(("decl", fname, None, ("fn", [("init", "int")], ("list", FI), body), ()))
            g.label("captured-only-as-assignment-target:" + wk)
            continue
        if shape == "modifyfromcell":
            # `modify v = <element / map entry>` stores the VALUE the cell holds at that moment: a later write to the cell (by the
            # other closure) must not show through v
            src = g.choice(["element", "entry", "element-of-nested"])
            k = g.int(1, 9)
            if src == "element":
                decl = ("decl", "cells", ("list", "int"), ("list", [V("init"), I(0)]), ())
                read = ("index", V("cells"), I(0))
                write = ("opassign", ("index", V("cells"), I(0)), "+=", I(k))
            elif src == "entry":
                decl = ("decl", "cells", None, ("map", "str", "int", [(S("a"), V("init"))]), ())
                read = ("or", ("index", V("cells"), S("a")), I(0 - 1))
                write = ("seti", V("cells"), S("a"), ("bin", "+", ("or", ("index", V("cells"), S("a")), I(0)), I(k)))
            else:
                decl = ("decl", "cells", ("list", ("list", "int")), ("list", [("list", [V("init")])]), ())
                read = ("index", ("index", V("cells"), I(0)), I(0))
                write = ("opassign", ("index", V("row"), I(0)), "+=", I(k))
            take = ("fn", [], "int", [("decl", "held", None, read, ("modify",)), ("return", V("held"))])
            bump = ("fn", [], "int", ([("decl", "row", None, ("index", V("cells"), I(0)), ())] if src == "element-of-nested" else []) + [write, ("return", V("held"))])
            # the factory itself takes the value and lets the sibling write the cell once (so that every instance has seen the
            # sequence); the history goes on calling both closures in any order
            body = [decl, ("decl", "held", None, I(0 - 5), ()), ("decl", "fa", None, take, ()), ("decl", "fb", None, bump, ()),
                    ("print", ("call", V("fa"), [])), ("print", ("call", V("fb"), [])), ("print", V("held")),
                    ("decl", "out", ("list", FI), ("list", [V("fa"), V("fb")]), ()), ("return", V("out"))]
            facts.append((fname, "list"))
            stmts.append(("decl", fname, None, ("fn", [("init", "int")], ("list", FI), body), ()))
            g.label("feat:modify-from-a-cell:" + src)
            continue
        if shape == "ownerwrite":
            # the OWNER writes its variable after the closure over it exists, in every form the language has for a write: the
            # closure must see the new value
            form = g.choice(["assign", "opassign", "assign-in-block", "opassign-in-loop", "unwrap", "unwrap-in-if", "unwrap-in-while", "unwrap-in-block"])
            k = g.int(1, 9)
            if form.startswith("unwrap"):
                rd = ("fn", [], "int", [("return", ("or", V("oc"), I(0 - 1)))])
                pre = [("decl", "oc", ("opt", "int"), ("nil",) if g.chance(60) else V("init"), ()), ("decl", "rd", None, rd, ()), ("decl", "src", ("opt", "int"), ("bin", "+", V("init"), I(k)), ())]
                if form == "unwrap":
                    wr = [("expr", ("unwrap_stmt", "oc", V("src")))]
                elif form == "unwrap-in-if":
                    wr = [("if", ("unwrap", "oc", V("src")), [("print", S("took"))], [("print", S("none"))])]
                elif form == "unwrap-in-while":
                    wr = [("decl", "go", None, I(0), ()), ("while", ("bin", "&&", ("bin", "<", V("go"), I(1)), ("unwrap", "oc", V("src"))), [("decl", "go", None, ("bin", "+", V("go"), I(1)), ())])]
                else:
                    wr = [("if", ("bin", ">=", V("init"), I(0)), [("expr", ("unwrap_stmt", "oc", V("src")))], None)]
            else:
                rd = ("fn", [], "int", [("return", V("oc"))])
                pre = [("decl", "oc", None, V("init"), ()), ("decl", "rd", None, rd, ())]
                if form == "assign":
                    wr = [("decl", "oc", None, ("bin", "+", V("init"), I(k)), ())]
                elif form == "opassign":
                    wr = [("opassign", V("oc"), g.choice(["+=", "-=", "*="]), I(k))]
                elif form == "assign-in-block":
                    wr = [("if", ("bin", ">=", V("init"), I(0)), [("decl", "oc", None, ("bin", "+", V("init"), I(k)), ())], None)]
                else:
                    wr = [("from", I(0), I(2), False, None, None, [("opassign", V("oc"), "+=", I(k))])]
            body = pre + [("print", ("call", V("rd"), []))] + wr + [("print", ("call", V("rd"), [])), ("return", V("rd"))]
            facts.append((fname, "int"))
            stmts.append(("decl", fname, None, ("fn", [("init", "int")], FI, body), ()))
            g.label("feat:owner-writes-after-capture:" + form)
            continue
        if shape == "optstate":
            # the captured variable is OPTIONAL: closures store plain values and nil into it through `modify`
            k = g.int(1, 4)
            start = ("nil",) if g.chance(60) else V("init")
            OR = lambda d: ("or", V("oc"), I(d))
            bump = ("fn", [], "int", [("decl", "oc", None, ("bin", "+", OR(0), I(k)), ("modify",)), ("return", OR(-1))])
            if g.chance(50):
                other = ("fn", [], "int", [("decl", "oc", ("opt", "int"), ("nil",), ("modify",)), ("return", OR(-7))])
                g.label("feat:modify-optional-capture:bump+clear")
            else:
                other = ("fn", [], "int", [("return", OR(-5))])
                g.label("feat:modify-optional-capture:bump+read")
            body = [("decl", "oc", ("opt", "int"), start, ()),
                    ("decl", "fa", None, bump, ()), ("decl", "fb", None, other, ()),
                    ("decl", "out", ("list", FI), ("list", [V("fa"), V("fb")]), ()), ("return", V("out"))]
            facts.append((fname, "list"))
            stmts.append(("decl", fname, None, ("fn", [("init", "int")], ("list", FI), body), ()))
            continue
        if shape in ("liststate", "fnstate"):
            # the captured variable holds a LIST / a FUNCTION and `modify` replaces it by a new value that compares equal to the old one
            # (a fresh list with the same elements, a closure of the same function literal): the variable must hold the NEW value
            if shape == "liststate":
                body = [("decl", "items", ("list", "int"), ("list", [V("init")]), ()), ("decl", "keep", None, V("items"), ()),
                        ("decl", "fa", None, ("fn", [], "int", [("decl", "fresh", ("list", "int"), ("list", [V("init")]), ()), ("decl", "items", None, V("fresh"), ("modify",)), ("return", I(0))]), ()),
                        ("decl", "fb", None, ("fn", [], "int", [("expr", ("mcall", V("items"), "push", [I(7)])),
                                                                 ("return", ("bin", "+", ("bin", "*", ("mcall", V("keep"), "len", []), I(100)), ("mcall", V("items"), "len", [])))]), ())]
            else:
                body = [("decl", "adder", None, ("fn", [("n", "int")], FI, [("return", ("fn", [], "int", [("return", ("bin", "+", V("n"), I(1000)))]))]), ()),
                        ("decl", "strat", None, ("call", V("adder"), [V("init")]), ()),
                        ("decl", "fa", None, ("fn", [], "int", [("decl", "strat", None, ("call", V("adder"), [("bin", "+", V("init"), I(5))]), ("modify",)), ("return", I(0))]), ()),
                        ("decl", "fb", None, ("fn", [], "int", [("return", ("call", V("strat"), []))]), ())]
            body += [("decl", "out", ("list", FI), ("list", [V("fa"), V("fb")]), ()), ("return", V("out"))]
            facts.append((fname, "list"))
            stmts.append(("decl", fname, None, ("fn", [("init", "int")], ("list", FI), body), ()))
            g.label("feat:modify-with-an-equal-looking-value:" + shape)
            continue
        if shape == "blockcreate":
            # the factory captured a module variable AND owns a same-named local (local-copy idiom); the closure it returns is
            # created inside an if / else / while block and must bind to the factory's LOCAL, the nearest one lexically
            mv = g.choice(mvars)
            inner = body_for(g.choice(["read", "inc", "condinc"]), mv, k=g.int(1, 3))
            where = g.choice(["if", "else", "while", "from", "nested-if"])
            assign = [("decl", "res", None, inner, ())]
            if where == "if":
                blk = ("if", ("bin", ">=", V("init"), I(0)), assign, None)
            elif where == "else":
                blk = ("if", ("bin", "<", V("init"), I(0)), [("print", S("neg"))], assign)
            elif where == "while":
                blk = ("while", ("bin", "<", V("go"), I(1)), [("decl", "go", None, ("bin", "+", V("go"), I(1)), ())] + assign)
            elif where == "from":
                blk = ("from", I(0), I(1), False, None, None, assign)
            else:
                blk = ("if", ("bin", ">=", V("init"), I(0)), [("if", ("bin", ">=", V("init"), I(0)), assign, None)], None)
            body = [("decl", "before", None, V(mv), ()), ("decl", mv, None, ("bin", "+", V("init"), V("before")), ()),
                    ("decl", "go", None, I(0), ()),
                    ("decl", "res", None, ("fn", [], "int", [("return", ("bin", "-", I(0), I(1)))]), ()), blk, ("return", V("res"))]
            facts.append((fname, "int"))
            stmts.append(("decl", fname, None, ("fn", [("init", "int")], FI, body), ()))
            g.label("closure-created-in-block-over-shadowing-local:" + where)
            continue
        if shape == "single":
            kind = g.choice(["inc", "read", "condinc", "shadow", "loopsum", "mcallarg", "localcopy", "inctwice", "loopshadow", "loopshadowinner", "ifshadow", "afterloop", "opinc", "opinc"])
            body = [("decl", local, None, V("init"), ()), ("return", body_for(kind, local, k=g.int(1, 3)))]
            facts.append((fname, "int"))
            stmts.append(("decl", fname, None, ("fn", [("init", "int")], FI, body), ()))
        elif shape == "pair":
            k = g.int(1, 3)
            body = [("decl", local, None, V("init"), ()),
                    ("decl", "fa", None, body_for("inc", local, k=k), ()), ("decl", "fb", None, body_for(g.choice(["read", "condinc"]), local, k=1), ()),
                    ("decl", "out", ("list", FI), ("list", [V("fa"), V("fb")]), ()), ("return", V("out"))]
            facts.append((fname, "list"))
            stmts.append(("decl", fname, None, ("fn", [("init", "int")], ("list", FI), body), ()))
            g.label("shared-local")
        elif shape == "nested":
            body = [("decl", local, None, V("init"), ()), ("return", body_for(g.choice(["nested", "modthennest"]), local, k=g.int(1, 3)))]
            facts.append((fname, "nested"))
            stmts.append(("decl", fname, None, ("fn", [("init", "int")], ("fn", [], FI), body), ()))
            g.label("nested-2")
        else:
            mv = g.choice(mvars)
            body = [("decl", local, None, V("init"), ()), ("return", body_for("read2", local, mv))] if local != mv else \
                   [("decl", local, None, V("init"), ()), ("return", body_for("read", local))]
            facts.append((fname, "int"))
            stmts.append(("decl", fname, None, ("fn", [("init", "int")], FI, body), ()))
    # module-level closures over module variables
    nm = g.int(1, 4)
    for ci in range(nm):
        v = g.choice(mvars)
        kind = g.choice(["read", "inc", "set", "shadow", "pure", "condinc", "read2", "loopsum", "mcallarg", "localcopy", "inctwice", "loopshadow", "loopshadowinner", "ifshadow", "afterloop", "opinc", "opinc"])
        name = "m%d" % ci
        if kind == "read2":
            stmts.append(("decl", name, None, body_for(kind, v, g.choice(mvars)), ()))
            closures.append((name, "int"))
        elif kind == "set":
            stmts.append(("decl", name, None, body_for(kind, v), ()))
            closures.append((name, "set"))
        else:
            stmts.append(("decl", name, None, body_for(kind, v, k=g.int(1, 3)), ()))
            closures.append((name, "int"))
    # closures WITH A PARAMETER made by a factory (threshold + call counter), invoked by the built-ins filter / map, by a user-written
    # loop and directly: whoever calls them, they run with what they captured; `lim` / `seen` also exist at module level as decoys
    stmts.append(("decl", "lim", None, I(1000), ()))
    stmts.append(("decl", "seen", None, I(0 - 7), ()))
    stmts.append(("decl", "mkpred", None, ("fn", [("lim", "int")], ("fn", ["int"], "bool"),
                  [("decl", "seen", None, I(0), ()), ("return", ("fn", [("x", "int")], "bool", [("decl", "seen", None, ("bin", "+", V("seen"), I(1)), ("modify",)),
                                                                                              ("return", ("bin", ">=", ("bin", "+", V("x"), ("bin", "*", V("seen"), I(0))), V("lim")))]))]), ()))
    stmts.append(("decl", "mkmap", None, ("fn", [("lim", "int")], ("fn", ["int"], "int"),
                  [("decl", "seen", None, I(0), ()), ("return", ("fn", [("x", "int")], "int", [("decl", "seen", None, ("bin", "+", V("seen"), I(1)), ("modify",)),
                                                                                             ("return", ("bin", "+", ("bin", "*", V("x"), V("lim")), V("seen")))]))]), ()))
    stmts.append(("decl", "pred2", None, ("call", V("mkpred"), [I(2)]), ()))
    stmts.append(("decl", "map3", None, ("call", V("mkmap"), [I(3)]), ()))
    stmts.append(("decl", "nums", ("list", "int"), ("list", [I(1), I(2), I(3), I(4)]), ()))
    # an OPTIONAL module variable, read by a closure; the module (its owner) writes it with `?=` during the history
    stmts.append(("decl", "ov", ("opt", "int"), ("nil",), ()))
    stmts.append(("decl", "rov", None, ("fn", [], "int", [("return", ("or", V("ov"), I(0 - 1)))]), ()))
    closures.append(("rov", "int"))
    # history
    inst = 0
    per_factory = {}
    wrote = False
    observed_after_write = False
    n_steps = g.int(3, 12)
    for step in range(n_steps):
        ops = [(3, "call"), (2, "via-builtin"), (2, "assign"), (1, "opassign"), (1, "blockassign"), (2, "unwrap"), (1, "isclosure"), (2, "apply"), (1, "alias"), (1, "inblock"), (1, "printvar")]
        if facts:
            ops.append((3, "instantiate"))
        if any(k == "set" for _, k in closures):
            ops.append((2, "set"))
        if any(k == "list" for _, k in closures):
            ops.append((2, "calllist"))
        if any(k == "nested" for _, k in closures):
            ops.append((2, "unnest"))
        op = g.weighted(ops)
        ints = [n for n, k in closures if k == "int"]
        if op == "instantiate":
            fname, ret = g.choice(facts)
            name = "i%d" % inst
            inst += 1
            stmts.append(("decl", name, None, ("call", V(fname), [I(g.int(0, 6))]), ()))
            closures.append((name, ret))
            per_factory[fname] = per_factory.get(fname, 0) + 1
        elif op == "call" and ints:
            stmts.append(("print", ("call", V(g.choice(ints)), [])))
            observed_after_write = observed_after_write or wrote
        elif op == "assign":
            v = g.choice(mvars)
            stmts.append(("decl", v, None, I(g.int(0, 9)), ()))
            wrote = True
        elif op == "via-builtin":
            k = g.choice(["filter", "map", "direct-pred", "direct-map", "filter-then-map"])
            g.label("feat:closure-invoked-by:" + k)
            if k == "filter":
                stmts.append(("print", ("mcall", V("nums"), "filter", [V("pred2")])))
            elif k == "map":
                stmts.append(("print", ("mcall", V("nums"), "map", [V("map3")])))
            elif k == "direct-pred":
                stmts.append(("print", ("call", V("pred2"), [I(g.int(0, 4))])))
            elif k == "direct-map":
                stmts.append(("print", ("call", V("map3"), [I(g.int(0, 4))])))
            else:
                stmts.append(("print", ("mcall", ("mcall", V("nums"), "filter", [V("pred2")]), "map", [V("map3")])))
            observed_after_write = True
            wrote = True
        elif op == "opassign":
            stmts.append(("opassign", V(g.choice(mvars)), g.choice(["+=", "-=", "*="]), I(g.int(1, 5))))
            wrote = True
            g.label("feat:owner-write:opassign")
        elif op == "blockassign":
            v = g.choice(mvars)
            inner = [("decl", v, None, I(g.int(10, 19)), ())]
            stmts.append(g.choice([("if", ("bin", ">=", V(v), I(0 - 99)), inner, None), ("from", I(0), I(1), False, None, None, inner)]))
            wrote = True
            g.label("feat:owner-write:in-block")
        elif op == "unwrap":
            src = "os%d" % step
            stmts.append(("decl", src, ("opt", "int"), ("nil",) if g.chance(25) else I(g.int(20, 29)), ()))
            form = g.choice(["stmt", "if", "block"])
            if form == "stmt":
                stmts.append(("expr", ("unwrap_stmt", "ov", V(src))))
            elif form == "if":
                stmts.append(("if", ("unwrap", "ov", V(src)), [("print", S("took"))], [("print", S("none"))]))
            else:
                stmts.append(("if", ("bin", ">=", V(mvars[0]), I(0 - 99)), [("expr", ("unwrap_stmt", "ov", V(src)))], None))
            stmts.append(("print", ("call", V("rov"), [])))
            wrote = True
            observed_after_write = True
            g.label("feat:owner-write:unwrap-" + form)
        elif op == "printvar":
            stmts.append(("print", V(g.choice(mvars))))
            observed_after_write = observed_after_write or wrote
        elif op == "isclosure":
            n, _ = g.choice([c for c in closures if c[1] != "list"] or closures[:1])
            if dict(closures)[n] != "list":
                stmts.append(("print", ("mcall", V(n), "is_closure", [])))
        elif op == "apply" and ints:
            g.label("higher-order-call")
            stmts.append(("print", ("call", V("apply"), [V(g.choice(ints))])))
            observed_after_write = observed_after_write or wrote
        elif op == "alias" and ints:
            name = "al%d" % step
            stmts.append(("decl", name, None, V(g.choice(ints)), ()))
            closures.append((name, "int"))
        elif op == "inblock" and ints:
            c1 = g.choice(ints)
            stmts.append(("from", I(0), I(g.int(1, 3)), False, None, None, [("print", ("call", V(c1), []))]))
            wrote = True
        elif op == "set":
            n = g.choice([n for n, k in closures if k == "set"])
            stmts.append(("expr", ("call", V(n), [I(g.int(10, 30))])))
            wrote = True
        elif op == "calllist":
            n = g.choice([n for n, k in closures if k == "list"])
            stmts.append(("print", ("call", ("index", V(n), I(g.int(0, 1))), [])))
            wrote = True
            observed_after_write = True
        elif op == "unnest":
            n = g.choice([n for n, k in closures if k == "nested"])
            name = "u%d" % step
            stmts.append(("decl", name, None, ("call", V(n), []), ()))
            closures.append((name, "int"))
        for v in mvars[:1]:
            stmts.append(("print", ("bin", "+", S(v + "="), V(v))))
    nt = (wrote and observed_after_write) or any(c >= 2 for c in per_factory.values())
    return {"stmts": stmts, "labels": sorted(g.labels), "nt": nt}


def check(case):
    stmts = [("print", S("@start"))] + case["stmts"] + [("print", S("@end"))]
    src, _ = ms.program(stmts)
    try:
        out, failure = model.Interp().run(stmts)
    except model.OutOfFuel:
        return CaseResult(evals=0, labels=["discard:model-fuel"])
    sc = scenario.simple(src, asserts=[{"kind": "stdout_eq", "step": "run", "value": out},
                                      {"kind": "exit", "step": "run", "in": ["ok"] if failure is None else ["error", "panic"]}])
    r = CaseResult(nt_keys=[src] if case["nt"] else [], labels=case["labels"] + ["model:" + (failure.kind if failure else "ok")],
                   sample={"source": src, "expected_stdout_tail": out[-300:]})
    res, fails, _ = scenario.execute(sc)
    if fails:
        run = res["run"]
        if "Did not compile" in run.stderr:
            r.rejected = True
            if os.environ.get("MSV_DEBUG"):
                print("REJECTED:\n" + src + "\n" + run.stdout[:600])
            if failure is None:
                # the reference interpreter runs this program to completion: a compile-time rejection of it is a violation
                # (when the model predicts a run-time failure, the compiler may legitimately report it earlier)
                diag = "\n".join(l for l in run.stdout.split("\n") if " = " in l or "-->" in l)[:600]
                r.failure = fail("the compiler rejected a program that the language accepts and the reference interpreter runs:\n" + diag + "\n" + src,
                                 "C07:rejected-valid-program", sc, case={"diagnostics": diag})
            return r
        feats = [l for l in case["labels"] if l in ("caller-owns-same-name", "factory-local-shadows-module-var") or l.startswith("feat:")]
        r.failure = fail("; ".join(fails) + "\n" + src, "C07:%s:%s:%s" % ("stdout" if run.stdout != out else "exit", run.klass, ",".join(feats)), sc, case={"source": src})
    return r


def enumerated(tier, seed):
    """fixed boundary programs of the statement (same model oracle)"""
    D = lambda n, e, fl=(): ("decl", n, None, e, fl)
    FFI = ("fn", [], FI)
    # a middle function creates a closure over the OUTER x and only afterwards declares its own local x
    late = [D("mk", ("fn", [], FFI, [D("x", I(1)),
                                     D("f", ("fn", [], FI, [D("g", ("fn", [], "int", [("return", V("x"))])), D("x", I(50)), ("return", V("g"))])),
                                     ("return", V("f"))])),
            D("f", ("call", V("mk"), [])), D("g", ("call", V("f"), [])), ("print", ("call", V("g"), []))]
    # the same with the owner still alive: the closure must still read the outer x
    late_alive = [D("x", I(1)),
                  D("f", ("fn", [], FI, [D("g", ("fn", [], "int", [("return", V("x"))])), D("x", I(50)), ("return", V("g"))])),
                  D("g", ("call", V("f"), [])), ("print", ("call", V("g"), [])), D("x", I(2)), ("print", ("call", V("g"), []))]
    # two closures of one factory call share the variable, two calls do not
    shared = [D("mk", ("fn", [], ("list", FI), [D("c", I(0)),
                                                 D("inc", ("fn", [], "int", [D("c", ("bin", "+", V("c"), I(1)), ("modify",)), ("return", V("c"))])),
                                                 D("rd", ("fn", [], "int", [("return", V("c"))])),
                                                 ("decl", "both", ("list", FI), ("list", [V("inc"), V("rd")]), ()), ("return", V("both"))])),
              D("p", ("call", V("mk"), [])), D("q", ("call", V("mk"), [])),
              D("pi", ("index", V("p"), I(0))), D("pg", ("index", V("p"), I(1))), D("qg", ("index", V("q"), I(1))),
              ("print", ("call", V("pi"), [])), ("print", ("call", V("pi"), [])), ("print", ("call", V("pg"), [])), ("print", ("call", V("qg"), [])),
              D("plain", ("fn", [], "int", [("return", I(1))])),
              ("print", ("mcall", V("pg"), "is_closure", [])), ("print", ("mcall", V("plain"), "is_closure", []))]
    # a function whose PARAMETER is named like the variable it modifies: `modify` addresses the captured variable, reads see the
    # parameter; the same inside a closure made by a factory whose parameter has that name (there the parameter IS the captured one)
    pm = [D("x", I(1)),
          D("g", ("fn", [("x", "int")], "int", [D("x", ("bin", "+", V("x"), I(1)), ("modify",)), ("return", V("x"))])),
          ("print", ("call", V("g"), [I(7)])), ("print", V("x")), ("print", ("call", V("g"), [I(20)])), ("print", V("x")),
          D("h", ("fn", [("x", "int")], "int", [D("x", I(50), ("modify",)), ("return", V("x"))])),
          ("print", ("call", V("h"), [I(3)])), ("print", V("x")),
          D("st", ("fn", [("x", "int")], None, [D("x", ("bin", "*", V("x"), I(2)), ("modify",))])),
          ("expr", ("call", V("st"), [I(6)])), ("print", V("x")), ("print", ("mcall", V("g"), "is_closure", []))]
    pm_factory = [D("y", I(10)),
                  D("mk", ("fn", [("y", "int")], FI, [("return", ("fn", [], "int", [D("y", ("bin", "+", V("y"), I(1)), ("modify",)), ("return", V("y"))]))])),
                  D("k", ("call", V("mk"), [I(100)])), ("print", ("call", V("k"), [])), ("print", ("call", V("k"), [])), ("print", V("y")),
                  D("outer", ("fn", [("y", "int")], "int", [D("inner", ("fn", [], None, [D("y", ("bin", "+", V("y"), I(5)), ("modify",))])),
                                                            ("expr", ("call", V("inner"), [])), ("expr", ("call", V("inner"), [])), ("return", V("y"))])),
                  ("print", ("call", V("outer"), [I(1)])), ("print", V("y"))]
    # closures that call THEMSELVES (`self(..)`) and use their captured variables after the recursive call has come back: read
    # (while a caller owns a variable of the same name, after the factory has returned), `modify`, a nested closure, a second self call
    FII = ("fn", ["int"], "int")
    summer = ("fn", [("n", "int")], "int", [D("calls", ("bin", "+", V("calls"), I(1)), ("modify",)),
                                             ("if", ("bin", "==", V("n"), I(0)), [("return", I(0))], None),
                                             D("rest", ("selfcall", [("bin", "-", V("n"), I(1))])), ("return", ("bin", "+", V("rest"), V("step")))])
    rec = [D("mk", ("fn", [("step", "int")], FII, [D("calls", I(0)), ("return", summer)])),
           D("by3", ("call", V("mk"), [I(3)])), D("by10", ("call", V("mk"), [I(10)])),
           ("print", ("call", V("by3"), [I(0)])), ("print", ("call", V("by3"), [I(2)])),
           D("stride", ("fn", [("step", "int")], "int", [("return", ("call", V("by3"), [I(2)]))])),
           ("print", ("call", V("stride"), [I(1000)])), ("print", ("call", V("stride"), [I(0 - 3)])),
           D("pace", ("fn", [], "int", [D("step", I(7)), D("a", ("call", V("by10"), [I(1)])), D("step", I(8)), D("b", ("call", V("by10"), [I(3)])),
                                        ("return", ("bin", "+", ("bin", "*", V("a"), I(1000)), V("b")))])),
           ("print", ("call", V("pace"), [])),
           D("total", I(0)),
           D("down", ("fn", [("n", "int")], None, [("if", ("bin", ">", V("n"), I(0)), [("expr", ("selfcall", [("bin", "-", V("n"), I(1))])),
                                                                                        D("total", ("bin", "+", V("total"), V("n")), ("modify",))], None)])),
           ("expr", ("call", V("down"), [I(4)])), ("print", V("total")),
           D("base", I(5)),
           D("twice", ("fn", [("n", "int")], "int", [("if", ("bin", "<=", V("n"), I(0)), [("return", V("base"))], None),
                                                      D("l", ("selfcall", [("bin", "-", V("n"), I(1))])), D("r", ("selfcall", [("bin", "-", V("n"), I(2))])),
                                                      D("base", ("bin", "+", V("base"), I(1)), ("modify",)), ("return", ("bin", "+", ("bin", "+", V("l"), V("r")), V("base")))])),
           ("print", ("call", V("twice"), [I(3)])), ("print", V("base")),
           D("nest", ("fn", [("n", "int")], ("fn", [], "int"), [("if", ("bin", ">", V("n"), I(0)), [D("inner", ("selfcall", [("bin", "-", V("n"), I(1))]))], None),
                                                              ("return", ("fn", [], "int", [("return", ("bin", "+", V("base"), V("n")))]))])),
           D("nf", ("call", V("nest"), [I(2)])), ("print", ("call", V("nf"), [])), D("base", I(100)), ("print", ("call", V("nf"), []))]
    # a variable that closures have captured is EXPORTED under its own name afterwards ("declare first, export at the bottom"): it
    # stays one variable for the owner and the closures
    late = [D("total", I(0)),
            D("add", ("fn", [("n", "int")], "int", [D("total", ("bin", "+", V("total"), V("n")), ("modify",)), ("return", V("total"))])),
            D("cur", ("fn", [], "int", [("return", V("total"))])),
            ("decl", "total", "int", V("total"), ("export",)), ("decl", "add", ("fn", ["int"], "int"), V("add"), ("export",)),
            ("print", ("call", V("add"), [I(5)])), ("print", V("total")), D("total", I(100)), ("print", ("call", V("cur"), [])),
            ("print", ("call", V("add"), [I(1)])), ("print", V("total")), ("opassign", V("total"), "+=", I(2)), ("print", ("call", V("cur"), []))]
    # closures created inside an if / else / from / while body capture a variable DECLARED IN THAT BLOCK and are called after the
    # block (or that iteration) has ended: the variable lives on with its closures - one per iteration, shared by the closures of
    # one iteration
    LF = ("list", FI)
    def mk_pair(var):
        return [("expr", ("mcall", V("keep"), "push", [("fn", [], "int", [D(var, ("bin", "+", V(var), I(1)), ("modify",)), ("return", V(var))])])),
                ("expr", ("mcall", V("keep"), "push", [("fn", [], "int", [("return", V(var))])]))]
    blk = [("decl", "keep", LF, ("list", []), ()), D("one", I(1)),
           ("if", ("bin", ">", V("one"), I(0)), [D("bx", I(10))] + mk_pair("bx"), None),
           ("if", ("bin", "<", V("one"), I(0)), [("print", I(0))], [D("ex", I(20))] + mk_pair("ex")),
           ("from", I(0), I(2), False, None, "i", [D("li", ("bin", "*", V("i"), I(100)))] + mk_pair("li")),
           D("wg", I(0)), ("while", ("bin", "<", V("wg"), I(2)), [D("wg", ("bin", "+", V("wg"), I(1))), D("wv", ("bin", "*", V("wg"), I(1000)))] + mk_pair("wv"))]
    for k in range(12):
        blk += [D("c%d" % k, ("index", V("keep"), I(k)))]
    for k in (0, 0, 1, 2, 3, 4, 4, 5, 6, 7, 8, 9, 10, 10, 11, 1, 5, 7):
        blk.append(("print", ("call", V("c%d" % k), [])))
    # a closure that uses its captured variable ONLY inside one arm of an if / else-if / else chain (each arm in turn; read, modify,
    # op-assignment), called while the owner is alive and after the factory that owns the variable has returned
    arms = []
    for arm in ("if", "else-if", "second-else-if", "else"):
        for use in ("read", "modify", "opassign"):
            stmt = {"read": ("return", ("bin", "*", V("cx"), I(10))), "modify": D("cx", ("bin", "+", V("cx"), I(1)), ("modify",)), "opassign": ("opassign", V("cx"), "+=", I(1))}[use]
            other = lambda k: [("return", I(0 - k))]
            chain = {"if": ("if", ("bin", "==", V("sel"), I(2)), [stmt], ("if", ("bin", "==", V("sel"), I(1)), other(1), other(2))),
                     "else-if": ("if", ("bin", "==", V("sel"), I(1)), other(1), ("if", ("bin", "==", V("sel"), I(2)), [stmt], other(2))),
                     "second-else-if": ("if", ("bin", "==", V("sel"), I(1)), other(1), ("if", ("bin", "==", V("sel"), I(3)), other(3), ("if", ("bin", "==", V("sel"), I(2)), [stmt], other(2)))),
                     "else": ("if", ("bin", "==", V("sel"), I(1)), other(1), ("if", ("bin", "==", V("sel"), I(3)), other(3), [stmt]))}[arm]
            nm = "f_%s_%s" % (arm.replace("-", ""), use)
            arms.append(D(nm, ("call", V("mkarm"), [])) if False else D(nm, ("fn", [("sel", "int")], "int", [chain, ("return", I(7))])))
            arms += [("print", ("call", V(nm), [I(2)])), ("print", V("cx")), ("print", ("call", V(nm), [I(1)]))]
    armp = [D("cx", I(3))] + arms
    fac = [D("mkf", ("fn", [], ("fn", ["int"], "int"), [D("cy", I(5)),
                     ("return", ("fn", [("sel", "int")], "int", [("if", ("bin", "==", V("sel"), I(1)), [("return", I(0 - 1))], ("if", ("bin", "==", V("sel"), I(2)), [D("cy", ("bin", "+", V("cy"), I(1)), ("modify",)), ("return", V("cy"))], [("return", I(0 - 2))])), ("return", I(7))]))])),
           D("ff", ("call", V("mkf"), [])), ("print", ("call", V("ff"), [I(2)])), ("print", ("call", V("ff"), [I(2)])), ("print", ("call", V("ff"), [I(1)]))]
    return [{"stmts": armp + fac, "labels": ["fixed:capture-used-only-inside-one-arm-of-an-if-chain"], "nt": True},
            {"stmts": blk, "labels": ["fixed:closures-over-block-locals-called-after-the-block"], "nt": True},
            {"stmts": late, "labels": ["fixed:captured-variable-exported-afterwards"], "nt": True},
            {"stmts": rec, "labels": ["fixed:closure-that-calls-itself-then-uses-its-captures"], "nt": True},
            {"stmts": pm, "labels": ["fixed:parameter-named-like-the-modified-variable"], "nt": True},
            {"stmts": pm_factory, "labels": ["fixed:parameter-of-the-factory-is-the-captured-variable"], "nt": True},
            {"stmts": late, "labels": ["feat:use-before-local-shadow"], "nt": True},
            {"stmts": late_alive, "labels": ["feat:use-before-local-shadow-owner-alive"], "nt": True},
            {"stmts": shared, "labels": ["fixed:shared-and-fresh-cells"], "nt": True}]


def strategy(tier):
    return cases()


def n_random(tier):
    return 4800 if tier == "quick" else 80000


def files(case):
    return {"main.ms": ms.program([("print", S("@start"))] + case["stmts"] + [("print", S("@end"))])[0]}
