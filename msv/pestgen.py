"""A small reader for pest grammars and a random sentence generator over them (used by C16).
Supports: rules `name = [_@$!]? { expr }`, sequences `~`, ordered choice `|`, postfix `* + ?`, `{n}`-free,
string and insensitive-string terminals, character ranges 'a'..'z', predicates `!e` / `&e` (ignored when
generating), built-ins (ANY, SOI, EOI, NEWLINE, ASCII_*), implicit WHITESPACE/COMMENT between tokens of
non-atomic rules."""
import re

TOKEN = re.compile(r"""\s+|//[^\n]*|/\*.*?\*/|"(?:\\.|[^"\\])*"|'(?:\\.|[^'\\])'|\.\.|[A-Za-z_][A-Za-z_0-9]*|[{}()|~*+?!&=@$_^]""", re.S)


def tokenize(text):
    out, pos = [], 0
    while pos < len(text):
        m = TOKEN.match(text, pos)
        if not m:
            raise ValueError("pest tokenizer stuck at %r" % text[pos:pos + 30])
        t = m.group(0)
        pos = m.end()
        if t.isspace() or t.startswith("//") or t.startswith("/*"):
            continue
        out.append(t)
    return out


def unescape(s):
    return bytes(s, "utf-8").decode("unicode_escape").encode("latin-1", "ignore").decode("utf-8", "ignore") if "\\" in s else s


class Parser:
    def __init__(self, toks):
        self.t, self.i = toks, 0

    def peek(self):
        return self.t[self.i] if self.i < len(self.t) else None

    def eat(self, x=None):
        t = self.peek()
        if x is not None and t != x:
            raise ValueError("expected %r got %r at %d" % (x, t, self.i))
        self.i += 1
        return t

    def grammar(self):
        rules = {}
        while self.peek() is not None:
            name = self.eat()
            self.eat("=")
            mod = ""
            if self.peek() in ("_", "@", "$", "!"):
                mod = self.eat()
            self.eat("{")
            e = self.choice()
            self.eat("}")
            rules[name] = (mod, e)
        return rules

    def choice(self):
        alts = [self.seq()]
        while self.peek() == "|":
            self.eat()
            alts.append(self.seq())
        return alts[0] if len(alts) == 1 else ("alt", alts)

    def seq(self):
        items = [self.postfix()]
        while self.peek() == "~":
            self.eat()
            items.append(self.postfix())
        return items[0] if len(items) == 1 else ("seq", items)

    def postfix(self):
        if self.peek() in ("!", "&"):
            op = self.eat()
            e = self.postfix()
            return ("pred", op, e)
        e = self.atom()
        while self.peek() in ("*", "+", "?"):
            e = ("rep", self.eat(), e)
        return e

    def atom(self):
        t = self.eat()
        if t == "(":
            e = self.choice()
            self.eat(")")
            return e
        if t == "^":
            s = self.eat()
            return ("str", unescape(s[1:-1]))
        if t.startswith("\""):
            return ("str", unescape(t[1:-1]))
        if t.startswith("'"):
            a = unescape(t[1:-1])
            if self.peek() == "..":
                self.eat()
                b = unescape(self.eat()[1:-1])
                return ("range", a, b)
            return ("str", a)
        return ("ref", t)


BUILTIN = {
    "ANY": lambda g: g.choice(list("abz09_ \"\\#.()[]{}+-*/%<>=!?,:\n\t") + ["é", "😀"]),
    "SOI": lambda g: "", "EOI": lambda g: "",
    "NEWLINE": lambda g: "\n",
    "ASCII_DIGIT": lambda g: g.choice("0123456789"),
    "ASCII_HEX_DIGIT": lambda g: g.choice("0123456789abcdefABCDEF"),
    "ASCII_BIN_DIGIT": lambda g: g.choice("01"),
    "ASCII_ALPHANUMERIC": lambda g: g.choice("abcxyzABZ019"),
    "ASCII_ALPHA": lambda g: g.choice("abcxyzABZ"),
}


def load(path):
    return Parser(tokenize(open(path, encoding="utf-8").read())).grammar()


def terminals(rules):
    """all string terminals of the grammar (the mutation dictionary)"""
    out = set()

    def walk(e):
        if e[0] == "str":
            if e[1].strip():
                out.add(e[1])
        elif e[0] in ("alt", "seq"):
            for x in e[1]:
                walk(x)
        elif e[0] == "rep":
            walk(e[2])
        elif e[0] == "pred":
            walk(e[2])
    for _, e in rules.values():
        walk(e)
    return sorted(out)


class Gen:
    """g = object with .int(lo,hi), .choice(seq), .chance(pct) (msv.gen.G)"""
    def __init__(self, rules, g, max_depth=14, idents=None, special=None):
        self.rules, self.g, self.max_depth = rules, g, max_depth
        self.special = special or []
        self.idents = idents if idents is not None else []
        self.budget = 600

    def ws(self):
        return self.g.choice([" ", " ", " ", "\n", "\t", "  "])

    def gen_rule(self, name, depth, atomic):
        if name in BUILTIN:
            return BUILTIN[name](self.g)
        if name not in self.rules:
            return ""
        if name == "ident" and self.special and self.g.chance(6):
            return self.g.choice(self.special)         # keyword-shaped words (true, self, nil, int ...) where a name is expected
        if name == "ident" and self.idents and self.g.chance(70):
            return self.g.choice(self.idents)          # bias toward names already used: gets past name resolution
        mod, e = self.rules[name]
        at = atomic
        if mod in ("@", "$"):
            at = True
        elif mod == "!":
            at = False
        s = self.gen(e, depth + 1, at)
        if name == "ident" and s and len(self.idents) < 12:
            self.idents.append(s)
        return s

    def gen(self, e, depth, atomic):
        self.budget -= 1
        k = e[0]
        if k == "str":
            return e[1]
        if k == "range":
            return chr(self.g.int(ord(e[1]), ord(e[2])))
        if k == "ref":
            return self.gen_rule(e[1], depth, atomic)
        if k == "pred":
            return ""
        if k == "seq":
            parts = [self.gen(x, depth, atomic) for x in e[1]]
            parts = [p for p in parts if p != ""]
            return "".join(parts) if atomic else self.ws().join(parts)
        if k == "alt":
            alts = e[1]
            if depth > self.max_depth or self.budget < 0:
                # prefer alternatives that terminate quickly
                alts = sorted(alts, key=self.cost)[:2]
            return self.gen(self.g.choice(alts), depth, atomic)
        if k == "rep":
            op, x = e[1], e[2]
            if op == "?":
                n = 1 if (self.g.chance(50) and depth <= self.max_depth and self.budget > 0) else 0
            else:
                lo = 1 if op == "+" else 0
                n = lo if (depth > self.max_depth or self.budget < 0) else self.g.int(lo, 3)
            parts = [self.gen(x, depth, atomic) for _ in range(n)]
            parts = [p for p in parts if p != ""]
            return "".join(parts) if atomic else self.ws().join(parts)
        raise ValueError(e)

    def cost(self, e, seen=None):
        """rough minimal size of an expression (to steer toward termination)"""
        seen = seen or set()
        k = e[0]
        if k in ("str", "range", "pred"):
            return 1
        if k == "ref":
            if e[1] in BUILTIN or e[1] not in self.rules:
                return 1
            if e[1] in seen:
                return 50
            return 1 + self.cost(self.rules[e[1]][1], seen | {e[1]})
        if k == "seq":
            return sum(self.cost(x, seen) for x in e[1])
        if k == "alt":
            return min(self.cost(x, seen) for x in e[1])
        if k == "rep":
            return 0 if e[1] in ("*", "?") else self.cost(e[2], seen)
        return 1
