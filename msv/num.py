"""Independent numeric model: the four kinds, the promotion table of the property statement, exact
integer arithmetic (Python ints) with range checks, IEEE-754 doubles (Python floats)."""
import math
from decimal import Decimal

KINDS = ("int", "bigint", "float", "byte")
RANGE = {"int": (-2 ** 31, 2 ** 31 - 1), "bigint": (-2 ** 127, 2 ** 127 - 1), "byte": (0, 255)}
WIDTH = {"int": 32, "bigint": 128, "byte": 8}
RANK = {"byte": 0, "int": 1, "bigint": 2, "float": 3}


class Fail(Exception):
    """The operation is undefined / not representable: execution must stop with a failure."""
    def __init__(self, reason):
        Exception.__init__(self, reason)
        self.reason = reason


class Num:
    __slots__ = ("k", "v")

    def __init__(self, k, v):
        self.k, self.v = k, v

    def __repr__(self):
        return "%s:%s" % (self.k, fmt(self))

    def __eq__(self, o):
        return isinstance(o, Num) and self.k == o.k and (self.v == o.v or (self.k == "float" and self.v != self.v and o.v != o.v)) \
            and (self.k != "float" or math.copysign(1, self.v) == math.copysign(1, o.v) or self.v != self.v)

    def __hash__(self):
        return hash((self.k, self.v))


def fmt_float(x):
    """Rust's `Display` for f64: shortest round-trip digits, never an exponent."""
    if x != x:
        return "NaN"
    if x in (math.inf, -math.inf):
        return "inf" if x > 0 else "-inf"
    s = format(Decimal(repr(x)), "f")
    if "." in s:
        s = s.rstrip("0").rstrip(".")
    if s in ("", "-"):
        s += "0"
    return s


def fmt(n):
    """Text printed by `print` for a number."""
    if n.k == "float":
        return fmt_float(n.v)
    if n.k == "byte":
        return "0b" + bin(n.v)[2:]
    return str(n.v)


def promote(k1, k2):
    return k1 if RANK[k1] >= RANK[k2] else k2


def in_range(k, v):
    lo, hi = RANGE[k]
    return lo <= v <= hi


def _tdiv(a, b):
    q = abs(a) // abs(b)
    return q if (a >= 0) == (b >= 0) else -q


def arith(op, a, b):
    """+ - * / % on two Nums -> Num or raises Fail."""
    k = promote(a.k, b.k)
    if op in ("/", "%") and b.v == 0:
        raise Fail("zero-divisor")
    if k == "float":
        x, y = float(a.v), float(b.v)
        if op == "+":
            r = x + y
        elif op == "-":
            r = x - y
        elif op == "*":
            r = x * y
        elif op == "/":
            r = _fdiv(x, y)
        else:
            r = _fmod(x, y)
        return Num("float", r)
    x, y = a.v, b.v
    if op == "+":
        r = x + y
    elif op == "-":
        r = x - y
    elif op == "*":
        r = x * y
    elif op == "/":
        r = _tdiv(x, y)
    else:
        r = x - y * _tdiv(x, y)
        # the quotient itself is not representable (MIN / -1): documented tolerance, value 0 or failure
        if not in_range(k, _tdiv(x, y)):
            raise Fail("rem-min-by-minus-one")
    if not in_range(k, r):
        raise Fail("overflow")
    return Num(k, r)


def _fdiv(x, y):
    try:
        return x / y
    except OverflowError:
        return math.copysign(math.inf, x) * math.copysign(1, y)


def _fmod(x, y):
    if x in (math.inf, -math.inf) or x != x or y != y:
        return math.nan
    return math.fmod(x, y)


def compare(op, a, b):
    """< <= > >= == != by numeric value; an integer operand is converted to double when the other is float."""
    if a.k == "float" or b.k == "float":
        x, y = float(a.v), float(b.v)
    else:
        x, y = a.v, b.v
    return {"<": x < y, "<=": x <= y, ">": x > y, ">=": x >= y, "==": x == y, "!=": x != y}[op]


def bitop(op, a, b):
    """& | xor << >> on non-float kinds."""
    if a.k == "float" or b.k == "float":
        raise ValueError("bit operation on float")
    k = promote(a.k, b.k)
    x, y = a.v, b.v
    if op == "&":
        return Num(k, x & y)
    if op == "|":
        return Num(k, x | y)
    if op == "xor":
        return Num(k, x ^ y)
    w = WIDTH[k]
    if not (0 <= y < w):
        raise Fail("shift-amount")
    if op == ">>":
        return Num(k, x >> y)
    r = x << y
    if not in_range(k, r):
        raise Fail("shl-lost-bits")
    return Num(k, r)


def neg(a):
    if a.k == "byte":
        raise ValueError("negate byte")
    if a.k == "float":
        return Num("float", -a.v)
    r = -a.v
    if not in_range(a.k, r):
        raise Fail("overflow")
    return Num(a.k, r)


# ---- literals: how to put an exact value of a kind into a run-time variable -------------------

def literal(n):
    """Source text of a non-negative literal of the kind, or None if the value has no direct literal."""
    if n.k == "int":
        return str(n.v) if 0 <= n.v <= 2 ** 31 - 1 else None
    if n.k == "bigint":
        return "B" + str(n.v) if 0 <= n.v <= 2 ** 127 - 1 else None
    if n.k == "byte":
        return "0b" + bin(n.v)[2:]
    if n.k == "float":
        if n.v != n.v or n.v in (math.inf, -math.inf) or math.copysign(1, n.v) < 0:
            return None
        s = format(Decimal(repr(n.v)), "f")
        return s if "." in s else s + ".0"
    raise ValueError(n.k)


def init_stmts(name, n, annotate=True):
    """Statements that leave a variable `name` of kind n.k holding n.v, using only non-negative literals,
    one run-time subtraction for negatives and one more for the minimum of the kind."""
    ann = ": " + n.k if annotate else ""
    lit = literal(n)
    if lit is not None:
        return ["%s%s = %s" % (name, ann, lit)]
    if n.k == "float" and (n.v != n.v or n.v in (math.inf, -math.inf)):
        # no literal denotes these: inf = 1e300 * 1e300, -inf = 0 - inf, NaN = inf - inf (IEEE-754, no failure)
        big = literal(Num("float", 1e300))
        lines = ["%s_h%s = %s" % (name, ann, big), "%s_i%s = %s_h * %s_h" % (name, ann, name, name)]
        if n.v != n.v:
            return lines + ["%s%s = %s_i - %s_i" % (name, ann, name, name)]
        if n.v > 0:
            return lines + ["%s%s = %s_i" % (name, ann, name)]
        return lines + ["%s_z%s = 0.0" % (name, ann), "%s%s = %s_z - %s_i" % (name, ann, name, name)]
    if n.k == "float":
        zero = "0.0"
        if n.v == 0:   # -0.0
            return ["%s_m%s = 1.0" % (name, ann), "%s_z%s = 0.0" % (name, ann),
                    "%s%s = %s_z * (%s_z - %s_m)" % (name, ann, name, name, name)]
        return ["%s_p%s = %s" % (name, ann, literal(Num("float", -n.v))), "%s_z%s = %s" % (name, ann, zero),
                "%s%s = %s_z - %s_p" % (name, ann, name, name)]
    lo, _ = RANGE[n.k]
    zero = {"int": "0", "bigint": "B0"}[n.k]
    one = {"int": "1", "bigint": "B1"}[n.k]
    if n.v == lo:
        return ["%s_p%s = %s" % (name, ann, literal(Num(n.k, -(n.v + 1)))), "%s_z%s = %s" % (name, ann, zero),
                "%s_o%s = %s" % (name, ann, one), "%s%s = %s_z - %s_p - %s_o" % (name, ann, name, name, name)]
    return ["%s_p%s = %s" % (name, ann, literal(Num(n.k, -n.v))), "%s_z%s = %s" % (name, ann, zero),
            "%s%s = %s_z - %s_p" % (name, ann, name, name)]


I = lambda v: Num("int", v)
B = lambda v: Num("bigint", v)
F = lambda v: Num("float", float(v))
Y = lambda v: Num("byte", v)

INT_FULL = [-2 ** 31, -2 ** 31 + 1, -65537, -65535, -2, -1, 0, 1, 2, 3, 7, 31, 32, 32767, 32769, 65536, 2 ** 30, 2 ** 31 - 2, 2 ** 31 - 1]
INT_QUICK = [-2 ** 31, -2 ** 31 + 1, -2, -1, 0, 1, 2, 31, 32, 65536, 2 ** 31 - 1]
BIG_FULL = [-2 ** 127, -2 ** 127 + 1, -2 ** 126, -2 ** 64, -2 ** 63 - 1, -2 ** 63, -2 ** 53 - 1, -2 ** 32, -2 ** 31 - 1, -2 ** 31, -1, 0, 1, 2, 127, 128,
            2 ** 31 - 1, 2 ** 31, 2 ** 32, 2 ** 53, 2 ** 53 + 1, 2 ** 63, 2 ** 64, 2 ** 126, 2 ** 127 - 2, 2 ** 127 - 1]
BIG_QUICK = [-2 ** 127, -2 ** 127 + 1, -2 ** 63, -2 ** 31 - 1, -1, 0, 1, 2, 127, 128, 2 ** 31, 2 ** 53 + 1, 2 ** 64, 2 ** 127 - 1]
FLOAT_FULL = [0.0, -0.0, 0.5, -0.5, 1.0, -1.0, 1.5, 2.0, 3.0, 7.25, 2.0 ** 31, 2.0 ** 53, 2.0 ** 53 + 2, 3e9, -3e9, 1e300, -1e300, 1e-300, 0.1, 2147483647.0, 1.7976931348623157e308, math.inf, -math.inf, math.nan]
FLOAT_QUICK = [0.0, 0.5, 1.0, -1.0, 1.5, 3.0, 2.0 ** 53, 3e9, 1e300, 1e-300, 0.1, math.inf, -math.inf, math.nan]
BYTE_FULL = [0, 1, 2, 7, 8, 127, 128, 254, 255]
BYTE_QUICK = [0, 1, 2, 7, 128, 255]


def boundary(kind, tier):
    full = tier == "thorough"
    if kind == "int":
        return [I(v) for v in (INT_FULL if full else INT_QUICK)]
    if kind == "bigint":
        return [B(v) for v in (BIG_FULL if full else BIG_QUICK)]
    if kind == "float":
        return [F(v) for v in (FLOAT_FULL if full else FLOAT_QUICK)]
    return [Y(v) for v in (BYTE_FULL if full else BYTE_QUICK)]
