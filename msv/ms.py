"""MiniMS: a small AST for the MScript subset the generators use, and its printer.

Types:  "int" "bigint" "float" "byte" "bool" "str"  ("list",T)  ("opt",T)  ("fn",[T..],R|None)
        ("cls",name)  ("map",K,V)
Exprs:  ("lit",type,value) ("nil",) ("var",name) ("bin",op,l,r) ("neg",e) ("not",e)
        ("call",f,[args]) ("selfcall",[args]) ("mcall",recv,name,[args]) ("index",e,i) ("field",e,name)
        ("list",[e..]) ("map",K,V,[(k,v)..]) ("get",e) ("or",e,fallback) ("unwrap",name,e)
        ("fn",[(name,type)..],ret,body) ("new",cls,[args]) ("raw",text)
Stmts:  ("decl",name,type|None,e,flags) ("seti",base,idx,e) ("setf",base,name,e) ("opassign",target,op,e)
        ("print",e) ("assert",e) ("if",cond,then,else|None) ("while",cond,body)
        ("from",start,end,inclusive,step|None,name|None,body) ("break",) ("continue",) ("return",e|None)
        ("expr",e) ("class",name,[(field,type)],ctor_params,ctor_body,[(mname,params,ret,body)]) ("rawstmt",text)
`else` of an if is None, a block (list) or another ("if",...) tuple (else-if chain).
"""
from . import num as _num


def ty(t):
    if isinstance(t, str):
        return t
    k = t[0]
    if k == "list":
        return "[%s...]" % ty(t[1])
    if k == "opt":
        inner = ty(t[1])
        return ("(%s)?" % inner if t[1][0] == "fn" else inner + "?") if not isinstance(t[1], str) else inner + "?"
    if k == "fn":
        s = "fn(%s)" % ", ".join(ty(p) for p in t[1])
        if t[2] is not None:
            s += " -> " + ty(t[2])
        return s
    if k == "cls":
        return t[1]
    if k == "map":
        return "map[%s, %s]" % (ty(t[1]), ty(t[2]))
    raise ValueError(t)


ESC = {"\\": "\\\\", "\"": "\\\"", "\n": "\\n", "\r": "\\r", "\t": "\\t"}


def str_lit(s):
    return "\"" + "".join(ESC.get(c, c) for c in s) + "\""


class Writer:
    def __init__(self):
        self.parts = []
        self.line = 1
        self.col = 1
        self.marks = {}
        self.ind = 0

    def w(self, text):
        self.parts.append(text)
        n = text.count("\n")
        if n:
            self.line += n
            self.col = len(text) - text.rfind("\n")
        else:
            self.col += len(text)

    def mark(self, node, tag=None):
        self.marks[id(node) if tag is None else tag] = (self.line, self.col)

    def text(self):
        return "".join(self.parts)


def lit_text(t, v):
    if t == "int":
        return str(v) if v >= 0 else "(-%d)" % -v
    if t == "bool":
        return "true" if v else "false"
    if t == "str":
        return str_lit(v)
    if t in ("bigint", "float", "byte"):
        n = _num.Num(t, v)
        l = _num.literal(n)
        if l is None:
            if t == "float":
                return "(0.0 - %s)" % _num.literal(_num.Num("float", -v))
            return "(B0 - %s)" % _num.literal(_num.Num("bigint", -v))
        return l
    raise ValueError(t)


def expr(w, e):
    k = e[0]
    if k == "lit":
        w.w(lit_text(e[1], e[2]))
    elif k == "nil":
        w.w("nil")
    elif k == "var":
        w.w(e[1])
    elif k == "raw":
        w.w(e[1])
    elif k == "bin":
        if getattr(w, "minparen", False):
            bin_min(w, e, 0, "L")
        else:
            w.w("(")
            expr(w, e[2])
            w.w(" " + e[1] + " ")
            expr(w, e[3])
            w.w(")")
    elif k == "paren":
        w.w("(")
        expr(w, e[1])
        w.w(")")
    elif k == "neg":
        w.w("(-")
        atom(w, e[1])
        w.w(")")
    elif k == "not":
        w.w("(!")
        atom(w, e[1])
        w.w(")")
    elif k == "call":
        callee(w, e[1])
        args(w, e[2])
    elif k == "selfcall":
        w.w("self")
        args(w, e[1])
    elif k == "new":
        w.w(e[1])
        args(w, e[2])
    elif k == "mcall":
        recv(w, e[1], dot=True)
        w.w("." + e[2])
        args(w, e[3])
    elif k == "index":
        recv(w, e[1])
        w.w("[")
        expr(w, e[2])
        w.w("]")
    elif k == "field":
        recv(w, e[1], dot=True)
        w.w("." + e[2])
    elif k == "list":
        w.w("[")
        for i, x in enumerate(e[1]):
            if i:
                w.w(", ")
            expr(w, x)
        w.w("]")
    elif k == "map":
        w.w("map[%s, %s] {" % (ty(e[1]), ty(e[2])))
        for i, (a, b) in enumerate(e[3]):
            if i:
                w.w(", ")
            expr(w, a)
            w.w(": ")
            expr(w, b)
        w.w("}")
    elif k == "get":
        w.w("(")
        w.mark(e)
        w.w("get ")
        w.mark(e, ("operand", id(e)))
        atom(w, e[1])
        w.mark(e, ("end", id(e)))
        w.w(")")
    elif k == "or":
        w.w("(")
        atom(w, e[1])
        w.w(" or ")
        expr(w, e[2])
        w.w(")")
    elif k == "unwrap_stmt":
        w.w(e[1] + " ?= ")
        expr(w, e[2])
    elif k == "unwrap":
        w.w("(" + e[1] + " ?= ")
        expr(w, e[2])
        w.w(")")
    elif k == "fn":
        w.w("fn(" + ", ".join("%s: %s" % (n, ty(t)) for n, t in e[1]) + ")")
        if e[2] is not None:
            w.w(" -> " + ty(e[2]))
        w.w(" ")
        block(w, e[3])
    else:
        raise ValueError(e)


PREC = {"is": 1, "||": 5, "^": 5, "&&": 6, "<": 7, "<=": 7, ">": 7, ">=": 7, "==": 7, "!=": 7, "|": 8, "&": 8, "xor": 9,
        "<<": 10, ">>": 10, "+": 11, "-": 11, "*": 12, "/": 12, "%": 12}


def bin_min(w, e, parent, side):
    """print a binary expression with only the parentheses the precedence table (all operators left-associative) needs"""
    if e[0] == "paren":
        w.w("(")
        bin_min(w, e[1], 0, "L")
        w.w(")")
        return
    if e[0] != "bin":
        if e[0] in ("or",):
            expr(w, e)
        else:
            atom(w, e)
        return
    p = PREC[e[1]]
    need = p < parent or (p == parent and side == "R")
    if need:
        w.w("(")
    bin_min(w, e[2], p, "L")
    w.w(" " + e[1] + " ")
    bin_min(w, e[3], p, "R")
    if need:
        w.w(")")


def atom(w, e):
    """an operand position that must be a math_primary: wrap anything that is not one."""
    if e[0] == "bin" and getattr(w, "minparen", False):
        w.w("(")
        bin_min(w, e, 0, "L")
        w.w(")")
    elif e[0] in ("lit", "var", "nil", "bin", "neg", "not", "get", "or", "unwrap", "list", "raw", "paren"):
        if e[0] == "lit" and (e[2] < 0 if e[1] in ("int", "bigint", "float") else False):
            expr(w, e)
        else:
            expr(w, e)
    else:
        w.w("(")
        expr(w, e)
        w.w(")")


def chainable(e):
    """var, or a field / method call whose receiver is chainable: printable as one dot chain `a.b.c(1).d`"""
    return e[0] == "var" or (e[0] in ("field", "mcall") and chainable(e[1]))


def recv(w, e, dot=False):
    """receiver of one postfix: a plain variable or a parenthesised expression (dot chains may continue un-parenthesised)."""
    if e[0] == "var":
        w.w(e[1])
    elif dot and chainable(e):
        expr(w, e)
    elif e[0] == "bin" and getattr(w, "minparen", False):
        w.w("(")
        bin_min(w, e, 0, "L")
        w.w(")")
    elif e[0] in ("bin", "neg", "not", "get", "or", "unwrap", "paren"):
        expr(w, e)   # already parenthesised
    elif e[0] == "lit" and e[1] == "str":
        expr(w, e)
    else:
        w.w("(")
        expr(w, e)
        w.w(")")


def callee(w, e):
    if e[0] == "var":
        w.w(e[1])
    else:
        w.w("(")
        expr(w, e)
        w.w(")")


def args(w, a):
    w.w("(")
    for i, x in enumerate(a):
        if i:
            w.w(", ")
        expr(w, x)
    w.w(")")


def block(w, stmts):
    w.w("{\n")
    w.ind += 1
    for s in stmts:
        stmt(w, s)
    w.ind -= 1
    w.w("\t" * w.ind + "}")


def stmt(w, s):
    w.w("\t" * w.ind)
    w.mark(s)
    start = len(w.parts)
    _stmt(w, s)
    first = "".join(w.parts[start:start + 3])[:1]
    if first in ("(", "[", "-"):
        # newlines do not separate statements: such a line would glue to the previous expression
        raise ValueError("statement must not start with %r: %r" % (first, s))


def _stmt(w, s):
    k = s[0]
    if k == "decl":
        fl = s[4] if len(s) > 4 and s[4] else ()
        for f in fl:
            w.w(f + " ")
        w.w(s[1])
        if s[2] is not None:
            w.w(": " + ty(s[2]))
        w.w(" = ")
        expr(w, s[3])
    elif k == "seti":
        recv(w, s[1])
        w.w("[")
        expr(w, s[2])
        w.w("] = ")
        expr(w, s[3])
    elif k == "setf":
        recv(w, s[1], dot=True)
        w.w("." + s[2] + " = ")
        expr(w, s[3])
    elif k == "opassign":
        expr(w, s[1])
        w.w(" " + s[2] + " ")
        expr(w, s[3])
    elif k == "print":
        w.w("print ")
        expr(w, s[1])
    elif k == "assert":
        if len(s) > 2 and s[2]:
            # an inline comment in front of the keyword: the position of the assert is the keyword's, counted in characters
            w.w("### " + s[2] + " ### ")
            w.mark(s)
        w.w("assert ")
        expr(w, s[1])
    elif k == "if":
        if_chain(w, s)
    elif k == "while":
        w.w("while ")
        expr(w, s[1])
        w.w(" ")
        block(w, s[2])
    elif k == "from":
        w.w("from ")
        expr(w, s[1])
        w.w(" through " if s[3] else " to ")
        expr(w, s[2])
        if s[4] is not None:
            w.w(" step ")
            expr(w, s[4])
        if s[5] is not None:
            w.w(", " + s[5])
        w.w(" ")
        block(w, s[6])
    elif k == "break":
        w.w("break")
    elif k == "continue":
        w.w("continue")
    elif k == "return":
        w.w("return ")
        if s[1] is not None:
            expr(w, s[1])
    elif k == "expr":
        expr(w, s[1])
    elif k == "rawstmt":
        w.w(s[1])
    elif k == "class":
        w.w("class " + s[1] + " {\n")
        w.ind += 1
        for fname, ftype in s[2]:
            w.w("\t" * w.ind + "%s: %s\n" % (fname, ty(ftype)))
        if s[3] is not None:
            w.w("\t" * w.ind + "constructor(" + ", ".join(["self"] + ["%s: %s" % (n, ty(t)) for n, t in s[3]]) + ") ")
            block(w, s[4])
            w.w("\n")
        for mname, params, ret, body in s[5]:
            w.w("\t" * w.ind + "fn " + mname + "(" + ", ".join(["self"] + ["%s: %s" % (n, ty(t)) for n, t in params]) + ")")
            if ret is not None:
                w.w(" -> " + ty(ret))
            w.w(" ")
            block(w, body)
            w.w("\n")
        w.ind -= 1
        w.w("\t" * w.ind + "}")
    else:
        raise ValueError(s)
    w.w("\n")


def if_chain(w, s):
    w.w("if ")
    expr(w, s[1])
    w.w(" ")
    block(w, s[2])
    e = s[3]
    if e is None:
        return
    w.w(" else ")
    if isinstance(e, tuple) and e and e[0] == "if":
        if_chain(w, e)
    else:
        block(w, e)


def program(stmts, minparen=False):
    """-> (source text, marks {id(node): (line, col)})"""
    w = Writer()
    w.minparen = minparen
    for s in stmts:
        stmt(w, s)
    return w.text(), w.marks
