"""A scenario = files + commands + assertions.  It is plain JSON, so a saved scenario is a
replay that needs no generator and no model: `execute` re-creates the files, runs the commands
on the current build and re-evaluates the stored assertions."""
import os, shutil, json, hashlib, math, re
from . import execu

DEFAULT_CWD = "p/q/r"
ASSERT_KINDS = {}
_FLOAT_RE = re.compile(r"^-?([0-9]+(\.[0-9]+)?|inf|NaN)$")


def assert_kind(name):
    def deco(f):
        ASSERT_KINDS[name] = f
        return f
    return deco


def simple(src, steps=None, asserts=None, name="main.ms", extra_files=None):
    files = {DEFAULT_CWD + "/" + name: src}
    for k, v in (extra_files or {}).items():
        files[DEFAULT_CWD + "/" + k] = v
    return {"files": files, "cwd": DEFAULT_CWD,
            "steps": steps or [{"id": "run", "argv": ["mscript", "run", name, "-q"]}],
            "asserts": asserts or []}


def execute(sc, keep=False):
    """Returns (results: {step id: Outcome}, failures: [str], root or None)."""
    root = execu.new_case_dir()
    try:
        execu.write_tree(root, sc.get("files"), sc.get("dirs"), sc.get("symlinks"), sc.get("modes"))
        cwd0 = os.path.join(root, sc.get("cwd", DEFAULT_CWD))
        os.makedirs(cwd0, exist_ok=True)
        results = {}
        ctx = {"root": root, "cwd": cwd0, "sc": sc}
        for st in sc["steps"]:
            cwd = os.path.join(root, st["cwd"]) if st.get("cwd") else cwd0
            if st.get("op") == "rename":
                try:
                    os.replace(os.path.join(cwd, st["src"]), os.path.join(cwd, st["dst"]))
                    results[st["id"]] = execu.Outcome("", "", 0, "ok")
                except OSError as e:
                    results[st["id"]] = execu.Outcome("", str(e), 1, "error")
                continue
            if st.get("op") == "write":
                # an edit: new content, and a modification time later than that of every file next to it (what an editor does a
                # moment after a build - without sleeping through the granularity of the clock)
                try:
                    path = os.path.join(cwd, st["path"])
                    with open(path, "w", encoding="utf-8") as fh:
                        fh.write(st["content"])
                    d = os.path.dirname(path)
                    newest = max(os.stat(os.path.join(d, n)).st_mtime for n in os.listdir(d))
                    os.utime(path, (newest + 2.0, newest + 2.0))
                    results[st["id"]] = execu.Outcome("", "", 0, "ok")
                except OSError as e:
                    results[st["id"]] = execu.Outcome("", str(e), 1, "error")
                continue
            if st.get("only_if_ok") and results[st["only_if_ok"]].klass != "ok":
                results[st["id"]] = execu.Outcome("", "skipped", -999, "skipped")
                continue
            argv = [x.replace("{ROOT}", root) for x in st["argv"]]
            env = {k: v.replace("{ROOT}", root) for k, v in st["env"].items()} if st.get("env") else None
            results[st["id"]] = execu.run_cmd(argv, cwd, env, st.get("timeout", 10.0))
        failures = []
        for a in sc["asserts"]:
            f = ASSERT_KINDS[a["kind"]](a, results, ctx)
            if f:
                failures.append(f if isinstance(f, str) else "; ".join(f))
        if keep:
            return results, failures, root
        return results, failures, None
    finally:
        if not keep:
            shutil.rmtree(root, ignore_errors=True)


def sc_hash(sc):
    return hashlib.blake2b(json.dumps(sc, sort_keys=True).encode(), digest_size=8).hexdigest()


def _clip(s, n=300):
    return s if len(s) <= n else s[:n] + "...[%d more]" % (len(s) - n)


def _line_eq(x, y):
    if x == y:
        return True
    if x.startswith("float:") and y.startswith("float:"):
        tx, ty = x[6:], y[6:]
        if not _FLOAT_RE.match(ty):
            return False
        try:
            fx, fy = float(tx), float(ty)
        except ValueError:
            return False
        if fx != fx or fy != fy:
            return tx == ty
        return fx == fy and math.copysign(1, fx) == math.copysign(1, fy)
    return False


@assert_kind("exit")
def _a_exit(a, res, ctx):
    r = res[a["step"]]
    if r.klass not in a["in"]:
        return "step %s: exit class %s (code %s) not in %s; stderr=%r" % (a["step"], r.klass, r.code, a["in"], _clip(r.stderr))


@assert_kind("stdout_eq")
def _a_stdout_eq(a, res, ctx):
    r = res[a["step"]]
    if a.get("float_by_value") and r.stdout != a["value"]:
        # Rust and Python break ties between equally short round-trip digit strings differently, so
        # `float:` lines are compared by the double they denote (sign of zero and NaN included).
        exp, got = a["value"].split("\n"), r.stdout.split("\n")
        if len(exp) == len(got) and all(_line_eq(x, y) for x, y in zip(exp, got)):
            return None
    if r.stdout != a["value"]:
        exp, got = a["value"].split("\n"), r.stdout.split("\n")
        i = 0
        while i < min(len(exp), len(got)) and exp[i] == got[i]:
            i += 1
        return "step %s: stdout differs at line %d: expected %r got %r (stderr=%r)" % (
            a["step"], i + 1, exp[i] if i < len(exp) else "<end>", got[i] if i < len(got) else "<end>", _clip(r.stderr))


@assert_kind("stdout_has")
def _a_stdout_has(a, res, ctx):
    if a["value"] not in res[a["step"]].stdout:
        return "step %s: stdout lacks %r: %r" % (a["step"], a["value"], _clip(res[a["step"]].stdout))


@assert_kind("stdout_lacks")
def _a_stdout_lacks(a, res, ctx):
    if a["value"] in res[a["step"]].stdout:
        return "step %s: stdout contains %r" % (a["step"], a["value"])


@assert_kind("stderr_has")
def _a_stderr_has(a, res, ctx):
    if a["value"] not in res[a["step"]].stderr:
        return "step %s: stderr lacks %r: %r" % (a["step"], a["value"], _clip(res[a["step"]].stderr))


@assert_kind("stderr_lacks")
def _a_stderr_lacks(a, res, ctx):
    if a["value"] in res[a["step"]].stderr:
        return "step %s: stderr contains %r" % (a["step"], a["value"])


@assert_kind("same")
def _a_same(a, res, ctx):
    ra, rb = res[a["a"]], res[a["b"]]
    out = []
    for f in a.get("fields", ["stdout", "klass"]):
        va, vb = getattr(ra, f), getattr(rb, f)
        if va != vb:
            out.append("%s of %s vs %s differ: %r vs %r" % (f, a["a"], a["b"], _clip(str(va)), _clip(str(vb))))
    if out:
        out.append("stderr %s=%r %s=%r" % (a["a"], _clip(ra.stderr, 200), a["b"], _clip(rb.stderr, 200)))
    return out or None


@assert_kind("any_of")
def _a_any_of(a, res, ctx):
    msgs = []
    for opt in a["options"]:
        fs = [f for f in (ASSERT_KINDS[x["kind"]](x, res, ctx) for x in opt) if f]
        if not fs:
            return None
        msgs.append("; ".join(f if isinstance(f, str) else "; ".join(f) for f in fs))
    return "none of the allowed outcomes: " + " | ".join(msgs)
