#!/bin/bash
# usage: run_check.sh <ID> <quick|thorough>   |   run_check.sh replay <ID> <path>   |   run_check.sh build
# exit 0 = held; 1 = VIOLATION printed; 2 = inconclusive / infrastructure problem
set -u
HERE="$(cd "$(dirname "$0")" && pwd)"
export VERIF_REPO="${VERIF_REPO:-/repo}"
export MSV_TARGET="${MSV_TARGET:-$HERE/.cache/target-hooks}"
export CARGO_NET_OFFLINE=true
export RUST_BACKTRACE=0
PY="${MSV_PYTHON:-/opt/veriftools/pyvenv/bin/python}"
[ -x "$PY" ] || PY=python3-vt

build_repo() {
  mkdir -p "$HERE/.cache"
  local log="$HERE/.cache/build.$$.log"
  # serialise concurrent builds of the same target dir
  (
    flock 9
    cd "$VERIF_REPO" && RUSTFLAGS="--cfg mscript_verif" CARGO_TARGET_DIR="$MSV_TARGET" \
      cargo build --offline >"$log" 2>&1
  ) 9>"$HERE/.cache/build.lock"
  local rc=$?
  if [ $rc -ne 0 ]; then
    echo "INFRA: build of $VERIF_REPO failed (exit $rc); last lines:" >&2
    tail -30 "$log" >&2
    rm -f "$log"
    return 2
  fi
  rm -f "$log"
  return 0
}

build_probe() {
  # C19's probe library: built against the working tree's bytecode crate with the same toolchain/profile as the CLI
  local dir="$HERE/.cache/ffi_probe"
  mkdir -p "$dir/src"
  sed "s#@REPO@#$VERIF_REPO#" "$HERE/ffi_probe/Cargo.toml.in" > "$dir/Cargo.toml"
  cp "$HERE/ffi_probe/src/lib.rs" "$dir/src/lib.rs"
  cp "$VERIF_REPO/Cargo.lock" "$dir/Cargo.lock"
  local log="$HERE/.cache/probe.$$.log"
  ( flock 9; cd "$dir" && RUSTFLAGS="--cfg mscript_verif" CARGO_TARGET_DIR="${MSV_TARGET}-ffi" cargo build --offline >"$log" 2>&1 \
      && RUSTFLAGS="--cfg mscript_verif" CARGO_TARGET_DIR="${MSV_TARGET}-ffi2" cargo build --offline --features second >>"$log" 2>&1 ) 9>"$HERE/.cache/build.lock"
  local rc=$?
  if [ $rc -ne 0 ]; then echo "INFRA: build of the FFI probe failed:" >&2; tail -20 "$log" >&2; rm -f "$log"; return 2; fi
  rm -f "$log"
  export MSV_PROBE="${MSV_TARGET}-ffi/debug/libmsv_ffi_probe.so"
  export MSV_PROBE2="${MSV_TARGET}-ffi2/debug/libmsv_ffi_probe.so"
}

case "${1:-}" in
  build)
    build_repo || exit 2
    build_probe || exit 2
    exit 0 ;;
  replay)
    build_repo || exit 2
    if [ "$2" = "C19" ]; then build_probe || exit 2; fi
    export MSV_BIN="$MSV_TARGET/debug/mscript"
    cd "$HERE" && exec "$PY" -m msv replay "$2" "$3" ;;
  "")
    echo "usage: $0 <ID> <quick|thorough> | replay <ID> <path> | build" >&2; exit 2 ;;
  *)
    build_repo || exit 2
    if [ "$1" = "C19" ] || [ "$1" = "c19" ]; then build_probe || exit 2; fi
    export MSV_BIN="$MSV_TARGET/debug/mscript"
    cd "$HERE" && exec "$PY" -m msv check "$1" --tier "${2:-${VERIF_TIER:-quick}}" --seed "${VERIF_SEED:-0}" ;;
esac
