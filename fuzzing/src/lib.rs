// parent crate required by cargo-fuzz; the targets live in fuzz/
