#![no_main]
//! C04 / C18 argument codecs: whatever argument vector the compiler could emit must be read back
//! unchanged by the loader's tokenizer after the writer's escaping.
use libfuzzer_sys::fuzz_target;

fn escape(arg: &str) -> String {
    // mirrors compiler::ast::CompiledItem::repr (kept in sync by the differential checks C04/C18)
    let mut out = String::from("\"");
    out.push_str(
        &arg.replace('\\', "\\\\")
            .replace('"', "\\\"")
            .replace('\n', "\\n")
            .replace('\r', "\\r")
            .replace('\t', "\\t"),
    );
    out.push('"');
    out
}

fuzz_target!(|data: &[u8]| {
    let Ok(text) = std::str::from_utf8(data) else {
        return;
    };
    if text.contains('\0') {
        return;
    }
    // split the input into 1..=4 arguments on U+001F
    let args: Vec<&str> = text.split('\u{1f}').take(4).collect();
    let line = args.iter().map(|a| escape(a)).collect::<Vec<_>>().join(" ");
    let back = bytecode::compilation_bridge::split_string(&line).expect("escaped arguments must tokenize");
    assert_eq!(back.len(), args.len(), "argument count changed: {line:?}");
    for (a, b) in args.iter().zip(back.iter()) {
        assert_eq!(a, b, "argument changed through writer+reader: {line:?}");
    }
});
