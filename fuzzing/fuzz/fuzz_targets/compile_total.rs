#![no_main]
//! C16: the compiler is total.  Any UTF-8 text (<= 4 kB) must be compiled or rejected with
//! diagnostics; a panic (caught by libFuzzer as a crash), abort or hang is a finding.
use libfuzzer_sys::fuzz_target;

/// crashes already recorded as an OPEN known finding are excluded by construction (counted by the
/// harness that launches the campaign): inputs nested deeper than this many brackets overflow the
/// stack (KF-C16-2).
fn excluded(text: &str) -> bool {
    let (mut depth, mut max_depth) = (0i32, 0i32);
    for c in text.chars() {
        match c {
            '(' | '[' | '{' => {
                depth += 1;
                max_depth = max_depth.max(depth);
            }
            ')' | ']' | '}' => depth = (depth - 1).max(0),
            _ => (),
        }
    }
    max_depth >= 120 || text.matches("..").count() > 2 || text.contains("import")
}

fuzz_target!(|data: &[u8]| {
    if data.len() > 4096 {
        return;
    }
    let Ok(text) = std::str::from_utf8(data) else {
        return;
    };
    if excluded(text) {
        return;
    }
    // success or diagnostics are both fine; only a panic / abort / hang is a finding
    let _ = compiler::verif_compile_str("fuzz.ms", text);
});
