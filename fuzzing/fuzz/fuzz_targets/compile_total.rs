#![no_main]
//! C16: the compiler is total.  Any UTF-8 text (<= 4 kB) must be compiled or rejected with
//! diagnostics; a panic (caught by libFuzzer as a crash), abort or hang is a finding.
use libfuzzer_sys::fuzz_target;

/// inputs the campaign does not judge: imports (they would read the file system) and more than two
/// `..` (path containment).  Nothing is excluded because of a known finding any more.
fn excluded(text: &str) -> bool {
    text.matches("..").count() > 2 || text.contains("import")
}

fuzz_target!(|data: &[u8]| {
    if data.len() > 4096 {
        return;
    }
    let Ok(text) = std::str::from_utf8(data) else {
        return;
    };
    if excluded(text) {
        return;
    }
    // the CLI compiles on a thread with a 256 MiB stack (long operator chains recurse once per
    // operand); do the same here so that the target judges what `mscript compile` does
    let text = text.to_owned();
    let worker = std::thread::Builder::new()
        .stack_size(256 * 1024 * 1024)
        .spawn(move || {
            // success or diagnostics are both fine; only a panic / abort / hang is a finding
            let _ = compiler::verif_compile_str("fuzz.ms", &text);
        })
        .expect("spawn");
    if worker.join().is_err() {
        panic!("the compiler panicked");
    }
});
