//! Probe library for C19: every function prints the argument slice it received (Debug form, one per
//! line, in order) and then answers in one of the three return forms.
use bytecode::{BytecodePrimitive, FFIReturnValue};

/// The same source builds two libraries: with the feature `second` every line is tagged PROBE2 and
/// `probe_only_in_first` does not exist, so a test can tell which library served a call.
#[cfg(not(feature = "second"))]
const TAG: &str = "PROBE";
#[cfg(feature = "second")]
const TAG: &str = "PROBE2";

fn show(name: &str, args: &[BytecodePrimitive]) {
    println!("{TAG} {name} argc={}", args.len());
    for (i, a) in args.iter().enumerate() {
        println!("{TAG} arg{i}={a:?}");
    }
}

#[no_mangle]
pub fn probe_echo_first(args: &[BytecodePrimitive]) -> FFIReturnValue {
    show("probe_echo_first", args);
    match args.first() {
        Some(first) => FFIReturnValue::Value(first.clone()),
        None => FFIReturnValue::NoValue,
    }
}

#[no_mangle]
pub fn probe_echo_last(args: &[BytecodePrimitive]) -> FFIReturnValue {
    show("probe_echo_last", args);
    match args.last() {
        Some(last) => FFIReturnValue::Value(last.clone()),
        None => FFIReturnValue::NoValue,
    }
}

#[no_mangle]
pub fn probe_none(args: &[BytecodePrimitive]) -> FFIReturnValue {
    show("probe_none", args);
    FFIReturnValue::NoValue
}

#[no_mangle]
pub fn probe_error(args: &[BytecodePrimitive]) -> FFIReturnValue {
    show("probe_error", args);
    FFIReturnValue::FFIError(format!("probe failure with {} argument(s)", args.len()))
}

/// Raises an error whose message is made of the string arguments (so a caller chooses its text,
/// line breaks included): `says <s0|s1|...>`.
#[no_mangle]
pub fn probe_error_text(args: &[BytecodePrimitive]) -> FFIReturnValue {
    show("probe_error_text", args);
    let parts: Vec<&str> = args
        .iter()
        .filter_map(|a| match a {
            BytecodePrimitive::Str(s) => Some(s.as_str()),
            _ => None,
        })
        .collect();
    FFIReturnValue::FFIError(format!("says <{}>", parts.join("|")))
}

#[cfg(not(feature = "second"))]
#[no_mangle]
pub fn probe_only_in_first(args: &[BytecodePrimitive]) -> FFIReturnValue {
    show("probe_only_in_first", args);
    FFIReturnValue::NoValue
}
